# Unit redir: save-then-replace of the target descriptor and its restoration (kernel of property C09).
RD = 'yash-semantics/src/redir.rs'
SY = 'yash-syntax/src/syntax.rs'
MOD_HEAD = '''    use vstd::prelude::*;
    use std::rc::Rc;
'''
GUARD = "impl<'e, S: Close + Dup> RedirGuard<'e, S>"
NO_LEAK = 'quiet(old(self).env.system)'
BODY_REWRITES = [
    ('fd_spec . close ( & env . system )', 'fd_spec.close(&mut env.system)', '*'),
    ('let content_ref = here_doc . content . get ( ) ; let content = content_ref . map ( Cow :: Borrowed ) . unwrap_or_default ( ) ;',
     'let content = verif_here_doc_content(here_doc);'),
]
# open file descriptions that existed before are not touched by an opener
FRAME_FILES = "forall|id: int| (exists|fd2: Fd| old(env).system.table().contains_key(fd2) && #[trigger] old(env).system.table()[fd2].id == id) ==> final(env).system.how(id) == old(env).system.how(id) && final(env).system.regular(id) == old(env).system.regular(id)"
UNIT = {
    'name': 'redir',
    'property': 'C09',
    'rlimit': 80,
    'verus_args': ['--edition=2024'],
    'controls': 'auto',
    'crate_attrs': ['#![feature(panic_internals)]'],
    'vacuity_floor': 6,
    'items': [
        ('@raw', 'pub mod expansion { pub struct ErrorCause { pub verif_opaque: u8 } }\npub mod system { pub type Result<T> = core::result::Result<T, crate::rd::Errno>; }\npub mod rd {\n' + MOD_HEAD),
        ('yash-env/src/system/errno.rs', ['struct Errno']),
        ('yash-env/src/io.rs', ['struct Fd']),
        ('yash-env/src/io.rs', ['impl Fd']),
        ('yash-env/src/io.rs', ['const MIN_INTERNAL_FD']),
        ('yash-env/src/system/io.rs', ['enum FdFlag'], {'drop_derives': 'all'}),
        ('yash-env/src/system/file_system.rs', ['enum OfdAccess'], {}),
        ('yash-env/src/system/file_system.rs', ['enum OpenFlag'], {'drop_derive_names': ['Debug', 'Hash']}),
        ('yash-env/src/option.rs', ['enum State'], {}),
        ('@raw', 'pub use State::*;\n'),
        (SY, ['enum RedirOp'], {}),
        (SY, ['enum RedirBody'], {'drop_derives': 'all'}),
        (SY, ['impl RedirBody', 'fn operand'], {}),
        (SY, ['struct Redir'], {'drop_derives': 'all'}),
        (SY, ['impl Redir', 'fn fd_or_default'], {'ret': 'r', 'ensures': ['r == self.target()']}),
        (RD, ['struct SavedFd'], {'pub_fields': True, 'vis': 'pub', 'drop_derive_names': ['Debug', 'Eq', 'PartialEq']}),
        (RD, ['enum ErrorCause'], {'drop_derives': 'all'}),
        (RD, ['struct Error'], {'drop_derives': 'all'}),
        (RD, ['enum FdSpec'], {'vis': 'pub', 'drop_derives': 'all'}),
        ('@file', 'prelude.rs'),
        (RD, ['impl FdSpec', 'fn as_fd'], {'ret': 'r',
            # ref-pattern-deref for a match: `match self { &P => .. }` is `match *self { P => .. }` (Verus has no reference patterns)
            'token_rewrites': [('match self { & FdSpec', 'match *self { FdSpec'), ('| & FdSpec', '| FdSpec'), (', & FdSpec', ', FdSpec')],
            'ensures': ['r == (match *self { FdSpec::Owned(fd) => Some(fd), FdSpec::Borrowed(fd) => Some(fd), FdSpec::Closed => None::<Fd> })']}),
        (RD, ['impl FdSpec', 'fn close'], {'mut_params': ['system'],
            'ensures': [
                # a descriptor opened for the redirection is closed again, a borrowed one is left alone
                'self matches FdSpec::Owned(fd) ==> (!old(system).close_fails(fd) ==> final(system).table() == old(system).table().remove(fd))',
                '!(self is Owned) ==> final(system).table() == old(system).table()',
                'same_failures(*old(system), *final(system))',
            ]}),
        (RD, ['fn is_cloexec'], {'ret': 'r',
            'ensures': ['r == (env.system.table().contains_key(fd) && env.system.table()[fd].cloexec)']}),
        # the other way the shell makes a descriptor its own (dot scripts, the script file, init files): moved to >= 10
        ('yash-env/src/io.rs', ['fn move_fd_internal'], {'ret': 'r', 'mut_params': ['system'],
            'ensures': [
                # a descriptor the shell keeps for itself is at 10 or above ...
                'r matches Ok(new) ==> new.0 >= 10 && final(system).table().contains_key(new) == (from.0 >= 10 ==> old(system).table().contains_key(from))',
                # ... close-on-exec when it had to be moved, referring to the same open file description, and the low
                # descriptor is given back: nothing is left behind below 10, whether the move worked or not
                'from.0 < 10 && !old(system).close_fails(from) ==> !final(system).table().contains_key(from)',
                'from.0 < 10 ==> (r matches Ok(new) ==> !old(system).table().contains_key(new) && old(system).table().contains_key(from) && final(system).table()[new] == (Ofd { id: old(system).table()[from].id, cloexec: true }))',
                'forall|fd: Fd| fd != from && !(r matches Ok(new) && new == fd) ==> (#[trigger] final(system).table().contains_key(fd) <==> old(system).table().contains_key(fd)) && (old(system).table().contains_key(fd) ==> final(system).table()[fd] == old(system).table()[fd])',
                'from.0 >= 10 ==> r == Ok::<Fd, Errno>(from) && final(system).table() == old(system).table()',
            ]}),
        (RD, ['const MODE'], {'attrs': ['#[verifier::external_body]']}),
        (RD, ['fn into_c_string_value_and_origin'], {'ret': 'r'}),
        (RD, ['fn open_file'], {'ret': 'r', 'rewrites': ['strip-async'],
            'ensures': [
                # one new descriptor, opened exactly as asked, or nothing at all
                'r matches Ok(p) ==> (p.0 matches FdSpec::Owned(fd) && opened(old(env).system.table(), final(env).system.table(), p.0) && final(env).system.how(final(env).system.table()[fd].id) == (How { access, flags: flags_of(flags) }) && final(env).system.table()[fd].cloexec == flags_of(flags).contains(OpenFlag::CloseOnExec))',
                'r is Err ==> final(env).system.table() == old(env).system.table()',
                FRAME_FILES, 'same_failures(old(env).system, final(env).system)', 'final(env).options == old(env).options',
            ]}),
        (RD, ['fn open_file_noclobber'], {'ret': 'r', 'rewrites': ['strip-async'],
            'token_rewrites': [('const FLAGS_EXCL : EnumSet < OpenFlag > = enum_set ! ( OpenFlag :: Create | OpenFlag :: Exclusive ) ;',
                                'let FLAGS_EXCL: EnumSet<OpenFlag> = OpenFlag::Create | OpenFlag::Exclusive;')],
            'closures': {0: {'ret': 'b: bool', 'param_types': ['FileStat'], 'ensures': ['b == stat.verif_regular']}},
            'ensures': [
                # noclobber: "refusal to overwrite an existing regular file" -- what is handed out was created by this very
                # open, or is not a regular file; never truncated; and a refusal leaves nothing open
                'r matches Ok(p) ==> (p.0 matches FdSpec::Owned(fd) && opened(old(env).system.table(), final(env).system.table(), p.0) && opens_as(RedirOp::FileOut, true, final(env).system.how(final(env).system.table()[fd].id), final(env).system.regular(final(env).system.table()[fd].id)))',
                'r is Err && quiet(old(env).system) ==> final(env).system.table() =~= old(env).system.table()',
                FRAME_FILES, 'same_failures(old(env).system, final(env).system)', 'final(env).options == old(env).options',
            ]}),
        (RD, ['fn copy_fd'], {'ret': 'r',
            'token_rewrites': [('target . value == "-"', 'verif_is_hyphen(&target.value)'), ('target . value . parse ( )', 'verif_parse_fd(&target.value)')],
            'nested': {
                'is_fd_valid': {'ret': 'b', 'mut_params': [],
                    'closures': {0: {'ret': 'c: bool', 'param_types': ['OfdAccess'], 'ensures': ['c == (access == expected_access || access == OfdAccess::ReadWrite)']}},
                    'ensures': ['b == (system.table().contains_key(fd) && (system.how(system.table()[fd].id).access == expected_access || system.how(system.table()[fd].id).access == OfdAccess::ReadWrite))']},
                'fd_mode_error': {'ret': 'e', 'attrs': ['#[verifier::external_body]'], 'ensures': ['e is Err']},
            },
            'ensures': [
                # <& and >& only ever name an OPEN descriptor of the right access mode that the shell does not hold for itself
                # (close-on-exec); nothing is opened or closed here
                'final(env).system.table() == old(env).system.table()',
                'r matches Ok(p) ==> (p.0 is Closed || (p.0 matches FdSpec::Borrowed(fd) && old(env).system.table().contains_key(fd) && !old(env).system.table()[fd].cloexec && (old(env).system.how(old(env).system.table()[fd].id).access == expected_access || old(env).system.how(old(env).system.table()[fd].id).access == OfdAccess::ReadWrite)))',
                'same_files(old(env).system, final(env).system)', 'same_failures(old(env).system, final(env).system)', 'final(env).options == old(env).options',
            ]}),
        (RD, ['fn open_normal'], {'ret': 'r', 'rewrites': ['strip-async'],
            'ensures': [
                'r matches Ok(p) ==> opened(old(env).system.table(), final(env).system.table(), p.0)',
                # XCU 2.7: each file operator opens with its access mode and flags; > under noclobber never truncates
                'r matches Ok(p) ==> (p.0 matches FdSpec::Owned(fd) ==> is_file_op(operator) && opens_as(operator, old(env).options.noclobber(), final(env).system.how(final(env).system.table()[fd].id), final(env).system.regular(final(env).system.table()[fd].id)))',
                'r matches Ok(p) ==> (is_file_op(operator) ==> p.0 is Owned)',
                # <& duplicates a descriptor open for reading, >& one open for writing; neither ever opens anything
                'r matches Ok(p) ==> (p.0 matches FdSpec::Borrowed(fd) ==> (operator is FdIn || operator is FdOut) && ({ let a = old(env).system.how(old(env).system.table()[fd].id).access; a == OfdAccess::ReadWrite || a == (if operator is FdIn { OfdAccess::ReadOnly } else { OfdAccess::WriteOnly }) }))',
                'r matches Ok(p) ==> (p.0 is Closed ==> operator is FdIn || operator is FdOut)',
                'r is Err && quiet(old(env).system) ==> final(env).system.table() =~= old(env).system.table()',
                'operator is Pipe || operator is String ==> r is Err',
                FRAME_FILES, 'same_failures(old(env).system, final(env).system)', 'final(env).options == old(env).options',
            ]}),
        ('@raw', 'pub mod here_doc {\n    use super::*;\n'),
        ('yash-semantics/src/redir/here_doc.rs', ['fn open_fd'], {'ret': 'r', 'rewrites': ['strip-async'], 'vis': 'pub',
            'token_rewrites': [('Path :: new ( "/tmp" )', 'verif_tmp_dir()')],
            'ensures': [
                'r matches Ok(fd) ==> opened(old(env).system.table(), final(env).system.table(), FdSpec::Owned(fd))',
                'r is Err && quiet(old(env).system) ==> final(env).system.table() =~= old(env).system.table()',
                FRAME_FILES, 'same_failures(old(env).system, final(env).system)', 'final(env).options == old(env).options',
            ]}),
        ('@raw', '}\n'),
        # the part of `perform` that opens the file and replaces the target (a function of its own since the repair of
        # finding F6; absent before it, and `perform` is then judged by its second annotation set)
        (RD, ['fn replace_target'], {'ret': 'r', 'rewrites': ['strip-async'], 'optional': True,
            'token_rewrites': BODY_REWRITES,
            'ensures': [
                # a failure leaves the table as it was: whatever was opened for the redirection is closed again
                'r is Err && quiet(old(env).system) ==> final(env).system.table() =~= old(env).system.table()',
                # success: only the target changes (and never to a close-on-exec descriptor), nothing else is opened or closed
                'r is Ok && quiet(old(env).system) ==> forall|fd: Fd| fd != target_fd ==> (#[trigger] final(env).system.table().contains_key(fd) <==> old(env).system.table().contains_key(fd)) && (old(env).system.table().contains_key(fd) ==> final(env).system.table()[fd] == old(env).system.table()[fd])',
                'same_failures(old(env).system, final(env).system)',
            ]}),
        (RD, ['fn perform'], {'ret': 'r', 'rewrites': ['strip-async'],
            'needs': ['replace_target ( env , redir , target_fd , xtrace )'],
            'ensures': [
                # "whether ... a redirection itself failed ... no command ever leaves an extra descriptor open, even when
                # descriptor allocation fails part-way": a failed redirection leaves the table as it was
                'r is Err && quiet(old(env).system) ==> final(env).system.table() =~= old(env).system.table()',
                # a successful one changes the target only, and records how to get back; the backing copy is a descriptor
                # of the shell's own (>= 10, close-on-exec)
                'r matches Ok(p) ==> (quiet(old(env).system) ==> p.0.original == redir.target() && performed(p.0, old(env).system.table(), final(env).system.table()))',
                # a descriptor the shell holds for itself (close-on-exec) is never the target of a redirection
                'old(env).system.table().contains_key(redir.target()) && old(env).system.table()[redir.target()].cloexec ==> r is Err',
                'same_failures(old(env).system, final(env).system)',
                'r matches Ok(p) ==> p.0.save != Some(p.0.original)',
            ],
            # the code before the repair of F6: one function, same contract
            'alt': [{'needs': ['let ( fd_spec , location , exit_status ) = match & redir . body {'], 'token_rewrites': BODY_REWRITES}],
            }),
        (RD, ['struct RedirGuard'], {'pub_fields': True, 'drop_derives': 'all'}),
        (RD, [GUARD, 'fn new'], {'ret': 'g',
            'ensures': ['g.saved_fds@.len() == 0', 'wf_records(g.saved_fds@)', 'g.env.system.table() == old(env).system.table()', 'ginv(g.saved_fds@, g.env.system.table(), old(env).system.table())']}),
        (RD, [GUARD, 'fn perform_redir'], {'ret': 'r', 'rewrites': ['strip-async'],
            'token_rewrites': [('perform ( self , redir , xtrace )', 'perform(self.env, redir, xtrace)')],
            'ghost_before': [('self . saved_fds . push (', 'proof { lemma_push(self.saved_fds@, saved_fd, self.env.system.table()); if quiet(old(self).env.system) { lemma_performed_undo(saved_fd, old(self).env.system.table(), self.env.system.table()); } }')],
            'requires': ['wf_records(old(self).saved_fds@)'],
            'ensures': [
                'wf_records(final(self).saved_fds@)',
                # the guard can always get back to where it started, whether the redirection succeeded or failed
                'forall|base: Table| ginv(old(self).saved_fds@, old(self).env.system.table(), base) && ' + NO_LEAK + ' ==> ginv(final(self).saved_fds@, final(self).env.system.table(), base)',
                'r is Err && ' + NO_LEAK + ' ==> final(self).saved_fds@ == old(self).saved_fds@ && final(self).env.system.table() =~= old(self).env.system.table()',
                'same_failures(old(self).env.system, final(self).env.system)',
            ]}),
        (RD, [GUARD, 'fn perform_redirs'], {'ret': 'r', 'rewrites': ['strip-async'],
            'attrs': ['#[verifier::loop_isolation(false)]'],
            # the generic `I: IntoIterator<Item = &Redir>` is checked at `&[Redir]` (what every caller but one passes; the other
            # passes `vec.iter()`)
            'sig_token_rewrites': [("< 'a , I >", "<'a>"), ('redirs : I', "redirs: &'a [Redir]"), ("I : IntoIterator < Item = & 'a Redir > ,", '')],
            'token_rewrites': [('xtrace . as_deref_mut ( )', 'verif_reborrow(&mut xtrace)'), ('for redir in redirs', 'for redir in verif_it: redirs')],
            'requires': ['wf_records(old(self).saved_fds@)'],
            'ensures': [
                'wf_records(final(self).saved_fds@)',
                # however many redirections were performed before one failed, the guard can get back to where it started:
                # every backing copy made on the way is on record
                'forall|base: Table| ginv(old(self).saved_fds@, old(self).env.system.table(), base) && ' + NO_LEAK + ' ==> ginv(final(self).saved_fds@, final(self).env.system.table(), base)',
                'same_failures(old(self).env.system, final(self).env.system)',
            ],
            'loops': {0: {'invariant': [
                'wf_records(self.saved_fds@)', 'same_failures(old(self).env.system, self.env.system)',
                'forall|base: Table| ginv(old(self).saved_fds@, old(self).env.system.table(), base) && ' + NO_LEAK + ' ==> ginv(self.saved_fds@, self.env.system.table(), base)',
            ]}}}),
        (RD, [GUARD, 'fn undo_redirs'], {
            'requires': ['wf_records(old(self).saved_fds@)'],
            # `for x in v.drain(..).rev()` is `while let Some(x) = v.pop()`: the elements from the last to the first, and the
            # vector is empty afterwards
            'token_rewrites': [('for SavedFd { original , save } in self . saved_fds . drain ( .. ) . rev ( ) {',
                'while let Some(SavedFd { original, save }) = self.saved_fds.pop()\n'
                '            invariant\n'
                '                same_failures(old(self).env.system, self.env.system), wf_records(self.saved_fds@),\n'
                '                forall|base: Table| ginv(old(self).saved_fds@, old(self).env.system.table(), base) && ' + NO_LEAK + ' ==> ginv(self.saved_fds@, self.env.system.table(), base),\n'
                '            ensures self.saved_fds@.len() == 0,\n'
                '            decreases self.saved_fds@.len(),\n'
                '        {\n'
                '            let ghost verif_t0 = self.env.system.table(); let ghost verif_s0 = self.saved_fds@; let ghost verif_x = SavedFd { original, save };\n'
                '            proof { assert forall|base: Table| ginv(verif_s0.push(verif_x), verif_t0, base) implies ((save matches Some(s) ==> verif_t0.contains_key(s) && s != original) && ginv(verif_s0, undo_one(verif_x, verif_t0), base)) by { lemma_push(verif_s0, verif_x, verif_t0); } }')],
            'ensures': [
                # "afterwards the shell's descriptor table is exactly what it was before"
                'forall|base: Table| ginv(old(self).saved_fds@, old(self).env.system.table(), base) && ' + NO_LEAK + ' ==> final(self).env.system.table() =~= base',
                'final(self).saved_fds@.len() == 0',
            ]}),
        (RD, [GUARD, 'fn preserve_redirs'], {
            # `for x in v.drain(..)`: the elements in order, and the vector is empty afterwards (helper with an assumed contract)
            'token_rewrites': [('for SavedFd { original : _ , save } in self . saved_fds . drain ( .. ) {',
                'let verif_d = verif_drain_all(&mut self.saved_fds); let mut verif_i: usize = 0;\n'
                '        while verif_i < verif_d.len()\n'
                '            invariant\n'
                '                verif_d@ == old(self).saved_fds@, verif_i <= verif_d@.len(), self.saved_fds@.len() == 0,\n'
                '                same_failures(old(self).env.system, self.env.system),\n'
                '                ' + NO_LEAK + ' ==> self.env.system.table() =~= old(self).env.system.table().remove_keys(saves_upto(verif_d@, verif_i as int)),\n'
                '            decreases verif_d@.len() - verif_i,\n'
                '        {\n'
                '            let SavedFd { original: _, save } = verif_d[verif_i]; verif_i += 1;')],
            'ghost_before': [],
            'ensures': [
                # "except for redirections on exec, which persist": the redirected descriptors stay as they are and every
                # backing copy is closed -- no extra descriptor stays open
                NO_LEAK + ' ==> final(self).env.system.table() =~= old(self).env.system.table().remove_keys(saves(old(self).saved_fds@))',
                'final(self).saved_fds@.len() == 0',
            ]}),
        (RD, ["impl<S: Close + Dup> std::ops::Drop for RedirGuard<'_, S>", 'fn drop'], {
            'wrapper': "impl<'e, S: Close + Dup> RedirGuard<'e, S>",
            'requires': ['wf_records(old(self).saved_fds@)'],
            'ensures': [
                # RAII: leaving the scope of the guard restores the table
                'forall|base: Table| ginv(old(self).saved_fds@, old(self).env.system.table(), base) && ' + NO_LEAK + ' ==> final(self).env.system.table() =~= base',
            ]}),
        ('@raw', '}\n'),
    ],
}
