# Unit subshellcmd: the subshell compound command `( ... )` (kernel shared by C02, C10 and C08).
SS = 'yash-semantics/src/command/compound_command/subshell.rs'
SEM = 'yash-env/src/semantics.rs'
MOD_HEAD = '''    use vstd::prelude::*;
    use std::ops::ControlFlow::{self, Break, Continue};
    use std::ffi::c_int;
    use std::rc::Rc;
'''
M0 = 'old(env).mon@'
M1 = 'final(env).mon@'
UNIT = {
    'name': 'subshellcmd',
    'controls': 'auto',
    'property': 'C02',
    'rlimit': 60,
    'verus_args': ['--edition=2024'],
    'vacuity_floor': 2,
    'items': [
        ('@raw', 'pub mod semantics { pub type Result<T = ()> = std::ops::ControlFlow<crate::ssc::Divert, T>; }\n'),
        ('@raw', 'pub mod ssc {\n' + MOD_HEAD + '    pub use crate::semantics::Result;\n'),
        (SEM, ['struct ExitStatus']),
        (SEM, ['impl ExitStatus#1', 'const ERROR']),
        (SEM, ['enum Divert']),
        ('@file', 'prelude.rs'),
        (SS, ['fn execute'], {'ret': 'r', 'rewrites': ['strip-async'],
            'token_rewrites': [
                ('Config :: foreground ( ) . start_and_wait ( env , async move | sub_env , _job_control | { subshell_main ( sub_env , body_2 ) . await } )',
                 'verif_start_and_wait(env, body_2)'),
                ('handle_job_status ( env , pid , result , | | body . to_string ( ) )', 'verif_handle_job_status(env, pid, result)'),
                ('print_error ( env , "cannot start subshell" . into ( ) , errno . to_string ( ) . into ( ) , location , )', 'verif_print_error(env, location)'),
            ],
            'requires': [M0 + '.phase is Idle'],
            'ensures': [
                # exactly one subshell is started, and what runs in it is subshell_main on exactly this body
                M1 + '.started == ' + M0 + '.started.push(body.verif_id)',
                # it could not be started: an interrupt with the error status, nothing else happens, `$?` is left alone
                M1 + '.phase is StartFailed ==> r == ControlFlow::<Divert, ()>::Break(Divert::Interrupt(Some(ExitStatus::ERROR)))'
                ' && final(env).exit_status == old(env).exit_status && ' + M1 + '.errexit_consulted == ' + M0 + '.errexit_consulted',
                # it was started and awaited: its result (of exactly that child) is interpreted once ...
                '!(' + M1 + '.phase is StartFailed) ==> (' + M1 + '.phase matches Phase::Handled { pid, result, answer } && '
                + M1 + '.awaited == Some((pid, result)) && ('
                # ... `$?` becomes the status that result stands for, and errexit is consulted exactly once, afterwards, with it:
                # a failing subshell ends the shell under errexit (C10)
                '(answer matches ControlFlow::Continue(st) && st == status_of(result) && final(env).exit_status == st && '
                + M1 + '.errexit_consulted == ' + M0 + '.errexit_consulted + 1 && ' + M1 + '.errexit_status == Some(st) && ' + M1 + '.errexit_result == Some(r))'
                # ... unless interpreting it diverts (a stopped subshell in an interactive shell, SIGINT): handed on, no errexit
                ' || (answer matches ControlFlow::Break(d) && r == ControlFlow::<Divert, ()>::Break(d) && ' + M1 + '.errexit_consulted == ' + M0 + '.errexit_consulted && final(env).exit_status == old(env).exit_status))'
                ')',
            ]}),
        (SS, ['fn subshell_main'], {'rewrites': ['strip-async'],
            'ensures': [
                # inside the subshell: the body runs once; what came out of it is applied to `$?` / the pending exit; and the
                # EXIT trap runs exactly once, after both (C10 "the EXIT trap runs exactly once")
                M1 + '.events.len() == ' + M0 + '.events.len() + 3',
                M1 + '.events.subrange(0, ' + M0 + '.events.len() as int) == ' + M0 + '.events',
                '(' + M1 + '.events[' + M0 + '.events.len() as int] matches Ev::Ran { id, result } && id == body.verif_id && '
                + M1 + '.events[' + M0 + '.events.len() as int + 1] == Ev::Applied { result })',
                M1 + '.events[' + M0 + '.events.len() as int + 2] is ExitTrap',
            ]}),
        ('@raw', '}\n'),
    ],
}
