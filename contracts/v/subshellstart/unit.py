# Unit subshellstart: Config::start (kernel shared by C08 and C13).
CFG = 'yash-env/src/subshell/config.rs'
SUB = 'yash-env/src/subshell.rs'
MOD_HEAD = '''    use vstd::prelude::*;
'''
L0 = 'old(env).log@'
L1 = 'final(env).log@'
JC = '(if old(env).verif_controls_jobs { self.job_control } else { None::<JobControl> })'
IGN = '(self.ignores_sigint_sigquit && ' + JC + ' is None)'
UNIT = {
    'name': 'subshellstart',
    'property': 'C08',
    'rlimit': 80,
    'controls': 'auto',
    'verus_args': ['--edition=2024'],
    'vacuity_floor': 1,
    'items': [
        ('@raw', 'pub mod sst {\n' + MOD_HEAD),
        (SUB, ['enum JobControl']),
        ('yash-env/src/option.rs', ['enum State']),
        ('@raw', 'pub use State::*;\n'),
        (CFG, ['struct Config']),
        ('@file', 'prelude.rs'),
        ('@raw', 'pub const ME: Pid = Pid(0);\n'),
        (CFG, ['impl Config', 'fn start'], {'ret': 'r', 'rewrites': ['strip-async', 'let-chain-nest'],
            'sig_token_rewrites': [("F : AsyncFnOnce ( & mut Env < S > , Option < JobControl > ) + 'static ,", '')],
            'token_rewrites': [
                ('env . controls_jobs ( ) . then_some ( self . job_control ) . flatten ( )', 'verif_then_some_flatten(env.controls_jobs(), self.job_control)'),
                ('env . system . block_sigint_sigquit ( )', 'verif_block(env)'),
                ('const ME : Pid = Pid ( 0 ) ;', '/* const ME: lifted to module level (rule nested-item-lifted) */'),
                # the closure handed to run_in_child_process, checked inline on a copy of the environment (see the prelude)
                ('let child_task = move | mut child_env : Env < S > , ( ) | async move { let env = & mut * child_env . push_frame ( Frame :: Subshell ) ;',
                 'let ghost mut verif_child_log: Seq<Ev> = Seq::empty(); { let mut child_env: Env<S> = verif_child_copy(env); verif_push_frame(&mut child_env, Frame::Subshell); let env = &mut child_env;'),
                ('env . system . setpgid (', 'verif_setpgid(env, ', '*'),
                ('env . system . getpgrp ( )', 'verif_getpgrp(env)'),
                ('tcsetpgrp_with_block ( & env . system , tty , pgid )', 'verif_tcsetpgrp(env, tty, pgid)', '*'),
                ('env . jobs . disown_all ( )', 'verif_disown_all(env)', '*'),
                ('env . traps . enter_subshell ( & env . system , ignore_sigint_sigquit , keep_internal_dispositions_for_stoppers , )', 'verif_enter_subshell(env, ignore_sigint_sigquit, keep_internal_dispositions_for_stoppers)', '*'),
                ('task ( env , job_control )', 'verif_run_task(task, env, job_control)', '*'),
                ('exit_or_raise ( & env . system , env . exit_status ) . await } ; let ( result , ( ) ) = env . run_in_child_process ( ( ) , child_task ) ;',
                 'verif_exit_or_raise(env); proof { verif_child_log = child_env.log@; } } let result = verif_run_in_child_process(env, Ghost(verif_child_log));'),
                ('env . system . restore_sigmask ( mask )', 'verif_restore(env, mask)'),
            ],
            'requires': ['old(env).verif_blocked@ is None'],
            'ensures': [
                # the job control granted: what the configuration asks for, if the shell controls jobs at all
                'r matches Ok(p) ==> p.1 == ' + JC,
                # PARENT.  Blocking failed: nothing happened at all
                L1 + '.len() == ' + L0 + '.len() ==> r is Err',
                L1 + '.len() >= ' + L0 + '.len()', L1 + '.subrange(0, ' + L0 + '.len() as int) =~= ' + L0,
                # otherwise exactly one fork; SIGINT / SIGQUIT are blocked around it iff the child is to ignore them, and the mask
                # saved is restored on every path (C08: the parent's signal mask is as before)
                'final(env).verif_blocked@ is None',
                L1 + '.len() > ' + L0 + '.len() ==> ({ let k = ' + L0 + '.len() as int + (if ' + IGN + ' { 1int } else { 0int }); '
                '(' + IGN + ' ==> ' + L1 + '[' + L0 + '.len() as int] is Block) && ' + L1 + '.len() > k && ' + L1 + '[k] is Fork && '
                '(forall|i: int| k < i < ' + L1 + '.len() ==> !((#[trigger] ' + L1 + '[i]) is Fork) && !(' + L1 + '[i] is Block)) && '
                # CHILD (whatever process the fork creates does this, on its copy of the environment)
                'child_ok(' + L1 + '[k]->child_log, old(env).verif_stack@, old(env).options.view@, ' + JC + ', self.ignores_sigint_sigquit) })',
                'final(env).verif_stack@ == old(env).verif_stack@', 'final(env).options == old(env).options',
            ]}),
        ('@raw', '}\n'),
    ],
}
