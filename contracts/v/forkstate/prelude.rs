// ---------------------------------------------------------------------------
// Prelude of unit forkstate (property C08, kernel): yash-env/src/fork.rs (ForkEnvState::{extract_from_env, restore_into_env,
// into_env_with_system, clone}) and yash-env/src/lib.rs Env::run_in_child_process.
// C08 "nothing executed inside a subshell environment ... can change the parent shell's variables, functions, aliases, options,
// positional parameters, ... traps ...; the parent's state after the construct is exactly as before" - at the place where the
// two environments part: the whole state of the environment (all fourteen fields that are not the system) is taken out before
// the fork and put back, field for field, afterwards, so the parent's environment is what it was whatever the child task does
// with its copy; the child task gets an environment whose fourteen fields are those of the state it was handed (a clone of the
// parent's in the simulated system, the very same memory image after a real fork) on top of the child's system.
//
// Hand-written model text (ASSUMED): the component types of the environment are opaque values with `Default` and `Clone`
// (clone gives an equal value); std::mem::take hands out the value; Fork::run_in_child_process hands the shared data back
// intact in the parent (its documented contract) - what it does with the child closure is not modelled: the closure is checked
// as a nested function (rule closure-to-nested-fn) and the call of the (generic, async) child task is an opaque call that
// REQUIRES the environment it is given to consist of exactly the fields of the state.
// ---------------------------------------------------------------------------
use std::collections::HashMap;
macro_rules! opaque_value {
    ($($n:ident),*) => { verus! { $(
        pub struct $n { pub verif_v: int }
        impl Default for $n { #[verifier::external_body] fn default() -> $n { unimplemented!() } }
        impl Clone for $n { #[verifier::external_body] fn clone(&self) -> (r: $n) ensures r == *self { unimplemented!() } }
    )* } }
}
opaque_value!(AliasSet, JobList, Stack, TrapSet, VariableSet, DataSet);
pub struct FunctionSet<S> { pub verif_v: int, pub verif_s: core::marker::PhantomData<S> }
impl<S> Default for FunctionSet<S> { #[verifier::external_body] fn default() -> FunctionSet<S> { unimplemented!() } }
impl<S> Clone for FunctionSet<S> { #[verifier::external_body] fn clone(&self) -> (r: FunctionSet<S>) ensures r == *self { unimplemented!() } }
pub struct Builtin<S> { pub verif_v: int, pub verif_s: core::marker::PhantomData<S> }
/// HashMap::clone at the type of the built-in table
#[verifier::external_body]
pub fn verif_clone_builtins<S>(m: &HashMap<&'static str, Builtin<S>>) -> (r: HashMap<&'static str, Builtin<S>>) ensures r == *m { unimplemented!() }
#[derive(Clone, Copy)] pub struct ExitStatus(pub i32);
#[derive(Clone, Copy)] pub struct Pid(pub i32);
#[derive(Clone, Copy)] pub struct Fd(pub i32);
#[derive(Clone, Copy)] pub struct OptionSet { pub verif_bits: u64 }
#[derive(Clone, Copy)] pub struct Errno(pub i32);
/// std::mem::take: the value is handed out (what is left behind is the default and plays no role)
#[verifier::external_body]
pub fn take<T: Default>(dest: &mut T) -> (r: T) ensures r == *old(dest) { std::mem::take(dest) }
/// String::clone
#[verifier::external_body]
pub fn verif_clone_string(s: &String) -> (r: String) ensures r == *s { s.clone() }
pub trait ChildTask<S, D> {}
/// Fork::run_in_child_process (system/process.rs): "in the parent process, the data is returned intact along with the child process ID"
#[verifier::external_body]
pub fn verif_fork<S, T>(system: &S, data: T) -> (r: (Result<Pid, Errno>, T)) ensures r.1 == data { unimplemented!() }
