// ---------------------------------------------------------------------------
// Prelude of unit simplecmd (properties C02 / C10 / C16, kernel): the dispatcher of simple commands
// (yash-semantics/src/command/simple_command.rs SimpleCommand::execute, perform_assignments).
// C02 "the commands that run (each name resolved in the POSIX search order ...)": the first field is classified (unit
// cmdsearch proves that classification is the POSIX order) and exactly the executor for that kind of target runs, once;
// a command without a name only performs its assignments and redirections.  C10 "under errexit, when a simple command
// ... fails": apply_errexit is consulted after every simple command that was not interrupted.  C16 "assignments
// prefixed to a regular built-in, function or external command do not outlive it while those prefixed to a special
// built-in do": the assignments of a command that asks for export go to the volatile scope, the others to the global one.
//
// Hand-written model text (ASSUMED): word expansion, classification, the four executors, the error handler,
// apply_errexit and the assignment performer of crate::assign are opaque calls observed by a ghost monitor.
// ---------------------------------------------------------------------------
pub assume_specification<B, C>[ <ControlFlow<B, C> as core::ops::Try>::branch ](cf: ControlFlow<B, C>) -> (r: ControlFlow<<ControlFlow<B, C> as core::ops::Try>::Residual, <ControlFlow<B, C> as core::ops::Try>::Output>)
    ensures match cf { ControlFlow::Continue(c) => r == ControlFlow::<ControlFlow<B, core::convert::Infallible>, C>::Continue(c), ControlFlow::Break(b) => r == ControlFlow::<ControlFlow<B, core::convert::Infallible>, C>::Break(ControlFlow::Break(b)) };
pub assume_specification<B, C>[ <ControlFlow<B, C> as core::ops::FromResidual<ControlFlow<B, core::convert::Infallible>>>::from_residual ](res: ControlFlow<B, core::convert::Infallible>) -> (r: ControlFlow<B, C>)
    ensures res matches ControlFlow::Break(b) ==> r == ControlFlow::<B, C>::Break(b);

pub trait Runtime {}
pub struct ExitStatus(pub i32);
impl Default for ExitStatus { fn default() -> (r: ExitStatus) ensures r == ExitStatus(0) { ExitStatus(0) } }
pub enum Divert { Exit(Option<ExitStatus>), Other(u8) }
pub type Result<T = ()> = ControlFlow<Divert, T>;
pub struct Field { pub value: String, pub verif_id: int }
pub struct Word { pub verif_id: int }
#[derive(Clone, Copy)]
pub struct ExpansionMode { pub verif_opaque: u8 }
pub struct Assign { pub verif_opaque: u8 }
pub struct Redir { pub verif_opaque: u8 }
pub struct XTrace { pub verif_opaque: u8 }
pub struct Builtin<S> { pub verif_id: int, pub verif_s: core::marker::PhantomData<S> }
pub struct Function<S> { pub verif_id: int, pub verif_s: core::marker::PhantomData<S> }
pub struct CString { pub verif_opaque: u8 }
pub struct Availability { pub verif_opaque: u8 }
pub struct ExpError { pub verif_opaque: u8 }
pub struct AssignError { pub verif_opaque: u8 }
#[derive(Clone, Copy)]
pub enum Scope { Global, Local, Volatile }
pub mod syntax {
    use super::*;
    pub struct SimpleCommand { pub assigns: Vec<Assign>, pub words: Vec<(Word, ExpansionMode)>, pub redirs: Rc<Vec<Redir>> }
}
pub mod command { pub mod search {
    use super::super::*;
    pub enum Target<S> { Builtin { builtin: Builtin<S>, availability: Availability, path: CString }, Function(Rc<Function<S>>), External { path: CString } }
} }
pub use command::search::Target;
pub mod crate_expansion { }
/// which executor
pub enum Kind { BuiltinK, FunctionK, ExternalK, AbsentK }
pub struct Mon {
    /// what the classifier answered for the name last classified
    pub classified: Option<Kind>,
    /// the executors that ran, in order
    pub executed: Seq<Kind>,
    pub errexit_consulted: nat,
    pub handled_errors: nat,
    /// the scope the assignment performer was last asked to use
    pub assign_scope: Option<Scope>,
    /// the words expanded, in order, each with what came out (the status of its last command substitution, if any)
    pub wlog: Seq<WordDone>,
    /// the status the executor of a command without a name was last given
    pub absent_status: Option<ExitStatus>,
}
pub struct WordDone { pub what: int, pub outcome: std::result::Result<Option<ExitStatus>, ExpError> }
/// the exit status of the last command substitution among the first n words expanded from position `from` (None if none)
pub open spec fn last_word_status(log: Seq<WordDone>, from: int, n: int) -> Option<ExitStatus>
    decreases n
{
    if n <= 0 { None } else {
        match log[from + n - 1].outcome {
            Ok(Some(s)) => Some(s),
            _ => last_word_status(log, from, n - 1),
        }
    }
}
pub proof fn lemma_word_status_prefix(a: Seq<WordDone>, b: Seq<WordDone>, from: int, n: int)
    requires 0 <= from, 0 <= n, from + n <= a.len(), from + n <= b.len(), forall|k: int| 0 <= k < from + n ==> a[k] == b[k],
    ensures last_word_status(a, from, n) == last_word_status(b, from, n),
    decreases n
{
    if n > 0 { lemma_word_status_prefix(a, b, from, n - 1); }
}
/// crate::expansion::expand_word_with_mode: opaque; which word, and what came out, is recorded
#[verifier::external_body]
pub fn expand_word_with_mode<S>(env: &mut Env<S>, word: &Word, mode: ExpansionMode, fields: &mut Vec<Field>) -> (r: std::result::Result<Option<ExitStatus>, ExpError>)
    ensures final(env).mon@ == (Mon { wlog: old(env).mon@.wlog.push(WordDone { what: word.verif_id, outcome: r }), ..old(env).mon@ })
{ unimplemented!() }
pub struct Env<S> { pub mon: Ghost<Mon>, pub system: S }
pub trait Command<S> { fn execute(&self, env: &mut Env<S>) -> Result; }

impl ExpError {
    #[verifier::external_body]
    pub fn handle<S>(&self, env: &mut Env<S>) -> (r: Result)
        ensures final(env).mon@ == (Mon { handled_errors: old(env).mon@.handled_errors + 1, ..old(env).mon@ })
    { unimplemented!() }
}
impl AssignError {
    #[verifier::external_body]
    pub fn handle<S>(&self, env: &mut Env<S>) -> (r: Result)
        ensures final(env).mon@ == (Mon { handled_errors: old(env).mon@.handled_errors + 1, ..old(env).mon@ })
    { unimplemented!() }
}
/// yash_env::semantics::command::search::classify (unit cmdsearch): opaque here, its answer is recorded
#[verifier::external_body]
pub fn classify<S>(env: &mut Env<S>, name: &String) -> (r: Target<S>)
    ensures final(env).mon@ == (Mon { classified: Some(match r { Target::Builtin { .. } => Kind::BuiltinK, Target::Function(_) => Kind::FunctionK, Target::External { .. } => Kind::ExternalK }), ..old(env).mon@ })
{ unimplemented!() }
pub open spec fn ran<S>(before: Env<S>, after: Env<S>, k: Kind) -> bool {
    after.mon@ == (Mon { executed: before.mon@.executed.push(k), ..before.mon@ })
}
#[verifier::external_body]
pub fn execute_builtin<S>(env: &mut Env<S>, builtin: Builtin<S>, availability: Availability, assigns: &Vec<Assign>, fields: Vec<Field>, redirs: &Rc<Vec<Redir>>) -> (r: Result)
    ensures ran(*old(env), *final(env), Kind::BuiltinK) { unimplemented!() }
#[verifier::external_body]
pub fn execute_function<S>(env: &mut Env<S>, function: Rc<Function<S>>, assigns: &Vec<Assign>, fields: Vec<Field>, redirs: &Rc<Vec<Redir>>) -> (r: Result)
    ensures ran(*old(env), *final(env), Kind::FunctionK) { unimplemented!() }
#[verifier::external_body]
pub fn execute_external_utility<S>(env: &mut Env<S>, assigns: &Vec<Assign>, fields: Vec<Field>, redirs: &Rc<Vec<Redir>>) -> (r: Result)
    ensures ran(*old(env), *final(env), Kind::ExternalK) { unimplemented!() }
#[verifier::external_body]
pub fn execute_absent_target<S>(env: &mut Env<S>, assigns: &Vec<Assign>, redirs: &Rc<Vec<Redir>>, exit_status: ExitStatus) -> (r: Result)
    ensures final(env).mon@ == (Mon { executed: old(env).mon@.executed.push(Kind::AbsentK), absent_status: Some(exit_status), ..old(env).mon@ }) { unimplemented!() }
impl<S> Env<S> {
    #[verifier::external_body]
    pub fn apply_errexit(&mut self) -> (r: Result)
        ensures final(self).mon@ == (Mon { errexit_consulted: old(self).mon@.errexit_consulted + 1, ..old(self).mon@ })
    { unimplemented!() }
}
pub mod assign {
    use super::*;
    /// crate::assign::perform_assignments (unit assignstatus): opaque here, the scope it is given is recorded
    #[verifier::external_body]
    pub fn perform_assignments<S>(env: &mut Env<S>, assigns: &[Assign], scope: Scope, export: bool, xtrace: Option<&mut XTrace>) -> (r: std::result::Result<Option<ExitStatus>, AssignError>)
        ensures final(env).mon@ == (Mon { assign_scope: Some(scope), ..old(env).mon@ })
    { unimplemented!() }
}
