UNIT = {
    'name': 'qvalue',
    'property': 'C07',
    'crate': 'yash-env',
    'cfg': [],
    'inject': [('yash-env/src/variable/value.rs', 'harness.rs')],
    'anchors': [
        ('yash-env/src/variable/value.rs', r'impl std::fmt::Display for QuotedValue<'),
        ('yash-env/src/variable/value.rs', r'pub fn quote\(&self\) -> QuotedValue<'),
    ],
    'functions': [
        {'file': 'yash-env/src/variable/value.rs', 'item': 'Value::quote + Display for QuotedValue (five concrete values)'},
    ],
    'harnesses': {'quick': ['c07q_', 'c07x_'], 'thorough': ['c07t_']},
    'min_harnesses': {'quick': 3, 'thorough': 4},
    'control_re': r'^c07x_',
    'complete_re': r'$^',
    'bound': 'five concrete values (a scalar, the empty array, arrays of two items)',
    'jobs': {'quick': 4, 'thorough': 5},
    'harness_timeout': '900s',
    'timeout_s': {'quick': 1500, 'thorough': 1500},
    'assumptions': ['the expected texts are my reading of the documented format `(item item ...)` with each item quoted as unit k/quote checks'],
}
