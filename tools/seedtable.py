"""Print the markdown table of section 9 of DESIGN.md from seeded/*/meta.json."""
import json, os
VERIF = os.path.dirname(os.path.dirname(os.path.abspath(__file__)))
rows = []
for sid in sorted(os.listdir(os.path.join(VERIF, 'seeded'))):
    mp = os.path.join(VERIF, 'seeded', sid, 'meta.json')
    if not os.path.exists(mp):
        continue
    m = json.load(open(mp))
    what = (m.get('breaks') or '').replace('|', '/').replace('\n', ' ')
    if len(what) > 230:
        what = what[:227] + '...'
    rc = m.get('recheck') or {}
    if rc and not rc.get('applies', True):
        res = 'patch no longer applies (see ported variant)'
    else:
        src = rc if rc else (m.get('check_result') or {})
        ex = src.get('exit')
        first = ''
        for l in src.get('lines') or []:
            if l.startswith(('VIOLATION', 'UNDECIDED')):
                first = l
                break
        if ex == 1:
            ob = first.split('obligation=')[-1][:110] if 'obligation=' in first else ''
            res = 'VIOLATION: `%s`' % ob
        elif ex == 2:
            res = 'UNDECIDED (exit 2): ' + first.replace('UNDECIDED property=%s ' % m['property'], '')[:120].replace('|', '/')
        elif ex == 0:
            res = '**not detected** (PASS)'
        else:
            res = '?'
    rows.append('| `%s` | %s | %s | %s |' % (sid, m['property'], what, res))
print('| seeded change | property | what it breaks | result of the quick check on the changed tree |')
print('|---|---|---|---|')
print('\n'.join(rows))
