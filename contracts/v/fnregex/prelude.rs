// ---------------------------------------------------------------------------
// Prelude of unit fnregex (specification): what it means for emitted text to denote a literal character
// in the syntax of the `regex` crate.  ASSUMED contract of the dependency regex-syntax 0.8 (its parser):
//   * outside a character class, exactly  \ . + * ? ( ) | [ ] { } ^ $  are special (default flags);
//   * inside a character class, exactly   \ [ ] ^ - & ~                 are special (^ - & ~ positionally);
//   * `\c` denotes the literal c exactly when c is a "meta character" (regex_syntax::is_meta_character):
//                                          \ . + * ? ( ) | [ ] { } ^ $ # & - ~
//   * every other character, non-ASCII included, denotes itself.
// ---------------------------------------------------------------------------

pub open spec fn special_outside(c: char) -> bool {
    c == '\\' || c == '.' || c == '+' || c == '*' || c == '?' || c == '(' || c == ')' || c == '|'
        || c == '[' || c == ']' || c == '{' || c == '}' || c == '^' || c == '$'
}
pub open spec fn special_inside(c: char) -> bool {
    c == '\\' || c == '[' || c == ']' || c == '^' || c == '-' || c == '&' || c == '~'
}
pub open spec fn is_meta(c: char) -> bool {
    special_outside(c) || c == '#' || c == '&' || c == '-' || c == '~'
}
/// going from `o0` to `o1` appends text that denotes the literal character `c` outside a character class
pub open spec fn emits_lit_outside(o0: Seq<char>, o1: Seq<char>, c: char) -> bool {
    (o1 == o0.push(c) && !special_outside(c)) || (o1 == o0.push('\\').push(c) && is_meta(c))
}
/// ... inside a character class
pub open spec fn emits_lit_inside(o0: Seq<char>, o1: Seq<char>, c: char) -> bool {
    (o1 == o0.push(c) && !special_inside(c)) || (o1 == o0.push('\\').push(c) && is_meta(c))
}
