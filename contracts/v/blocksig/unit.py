# Unit blocksig: the blanket impl of BlockSignals (kernel of C08).
SUB = 'yash-env/src/subshell.rs'
MOD_HEAD = '''    use vstd::prelude::*;
'''
IMPL = 'impl<S> BlockSignals for S'
WRAP = 'impl<S: Sigmask> VerifSys<S>'
UNIT = {
    'name': 'blocksig',
    'property': 'C08',
    'rlimit': 40,
    'verus_args': ['--edition=2024'],
    'vacuity_floor': 2,
    'items': [
        ('@raw', 'pub mod bs {\n' + MOD_HEAD),
        ('@file', 'prelude.rs'),
        (SUB, [IMPL, 'fn block_sigint_sigquit'], {'ret': 'r', 'rewrites': ['strip-async'], 'wrapper': WRAP, 'mut_params': ['self'],
            'sig_token_rewrites': [('Self :: SavedMask', 'S::Sigset')],
            'ensures': [
                # blocked afterwards: what was blocked before plus exactly SIGINT and SIGQUIT; handed out: the mask that was in force
                'r matches Ok(saved) ==> saved.view() == old(self).inner.mask() && final(self).inner.mask() == old(self).inner.mask().insert(S::SIGINT.0 as int).insert(S::SIGQUIT.0 as int)',
                # on failure nothing is blocked that was not
                'r is Err ==> final(self).inner.mask() == old(self).inner.mask()',
            ]}),
        (SUB, [IMPL, 'fn restore_sigmask'], {'ret': 'r', 'rewrites': ['strip-async'], 'wrapper': WRAP, 'mut_params': ['self'],
            'sig_token_rewrites': [('Self :: SavedMask', 'S::Sigset')],
            'ensures': [
                # exactly the mask given is in force afterwards
                'r is Ok ==> final(self).inner.mask() == mask.view()',
                'r is Err ==> final(self).inner.mask() == old(self).inner.mask()',
            ]}),
        ('@raw', '}\n'),
    ],
}
