PHRASE = 'yash-semantics/src/expansion/phrase.rs'
ATTR = 'yash-env/src/semantics/expansion/attr.rs'
MOD_HEAD = '''    use vstd::prelude::*;
'''
UNIT = {
    'name': 'phrase',
    'property': 'C01',
    'rlimit': 60,
    'verus_args': ['--edition=2024'],
    'items': [
        ('@raw', 'pub mod ph {\n' + MOD_HEAD),
        (ATTR, ['enum Origin']),
        (ATTR, ['struct AttrChar']),
        (PHRASE, ['enum Phrase'], {'drop_derives': True}),
        ('@raw', 'use Phrase::*;\n'),
        ('@file', 'prelude.rs'),
        (PHRASE, ['impl Phrase', 'fn zero_fields'], {'ret': 'r', 'ensures': ['view(r) =~= Seq::<Seq<AttrChar>>::empty()']}),
        (PHRASE, ['impl Phrase', 'fn append'], {
            'ensures': [
                'view(*final(self)) =~= join(view(*old(self)), view(*old(other)))',
                'view(*final(other)) =~= Seq::<Seq<AttrChar>>::empty()',
            ]}),
        ('@raw', '}\n'),
    ],
}
