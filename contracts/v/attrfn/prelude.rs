// ---------------------------------------------------------------------------
// Prelude of unit attrfn (property C04: "quoted or backslash-escaped characters match only themselves"):
// how backslashes in the result of an expansion are turned into quoting before a pattern is built
// (yash-semantics/src/expansion/attr_fnmatch.rs).
// ---------------------------------------------------------------------------

/// an unquoted backslash that is not itself a quoting character: it escapes the next character
pub open spec fn active_backslash(c: AttrChar) -> bool { c.value == '\\' && !c.is_quoting && !c.is_quoted }

/// one step of the left-to-right scan, at the pair (j-1, j)
pub open spec fn esc_step(s: Seq<AttrChar>, j: int) -> Seq<AttrChar> {
    if 1 <= j < s.len() && active_backslash(s[j - 1]) {
        s.update(j - 1, AttrChar { is_quoting: true, ..s[j - 1] }).update(j, AttrChar { is_quoted: true, ..s[j] })
    } else { s }
}
/// the scan over the pairs (0,1) .. (k-1,k)
pub open spec fn esc_upto(s: Seq<AttrChar>, k: int) -> Seq<AttrChar>
    decreases k
{
    if k <= 0 { s } else { esc_step(esc_upto(s, k - 1), k) }
}

/// consequences that do not depend on the order of the scan: characters and origins are untouched, flags are only
/// ever set, and a character is newly quoted only right after a backslash that became a quoting character
pub proof fn lemma_esc_upto(s: Seq<AttrChar>, k: int)
    requires 0 <= k < s.len() || (k == 0),
    ensures
        esc_upto(s, k).len() == s.len(),
        forall|i: int| 0 <= i < s.len() ==> (#[trigger] esc_upto(s, k)[i]).value == s[i].value && esc_upto(s, k)[i].origin == s[i].origin
            && (s[i].is_quoted ==> esc_upto(s, k)[i].is_quoted) && (s[i].is_quoting ==> esc_upto(s, k)[i].is_quoting),
        forall|i: int| 0 <= i < s.len() && (#[trigger] esc_upto(s, k)[i]).is_quoted && !s[i].is_quoted ==> i >= 1 && s[i - 1].value == '\\' && esc_upto(s, k)[i - 1].is_quoting,
        forall|i: int| k < i < s.len() ==> #[trigger] esc_upto(s, k)[i] == s[i],
    decreases k
{
    if k > 0 {
        lemma_esc_upto(s, k - 1);
        let p = esc_upto(s, k - 1);
        assert(p[k] == s[k]);
    }
}
