# Unit casematch: does the subject of a case match a pattern of an item (kernel of C04).
CS = 'yash-semantics/src/command/compound_command/case.rs'
MOD_HEAD = '''    use vstd::prelude::*;
'''
E0 = 'old(env).expanded@'
E1 = 'final(env).expanded@'
UNIT = {
    'name': 'casematch',
    'property': 'C04',
    'rlimit': 80,
    'verus_args': ['--edition=2024'],
    'vacuity_floor': 2,
    'items': [
        ('@raw', 'pub mod cm {\n' + MOD_HEAD),
        ('yash-fnmatch/src/lib.rs', ['struct Config'], {'drop_derives': 'all'}),
        ('@file', 'prelude.rs'),
        (CS, ['fn config'], {'ret': 'c', 'ensures': ['c == whole()']}),
        (CS, ['fn matches'], {'ret': 'r', 'rewrites': ['strip-async'],
            'attrs': ['#[verifier::loop_isolation(false)]'],
            'sig_token_rewrites': [('crate :: expansion :: Result < bool >', 'Result<bool, Error>')],
            'token_rewrites': [
                ('return Ok ( true ) ;', 'proof { lemma_first_match_stable(patterns@, subject@, verif_i as int, patterns@.len() as int); } return Ok(true);'),
                ('for pattern in patterns {', 'let mut verif_i: usize = 0; while verif_i < patterns.len() invariant verif_i <= patterns@.len(), first_match(patterns@, subject@, verif_i as int) is None, ' + 'env.expanded@ =~= ' + E0 + ' + word_ids(patterns@.subrange(0, verif_i as int)) decreases patterns@.len() - verif_i { let pattern = &patterns[verif_i]; verif_i += 1; proof { assert(patterns@.subrange(0, verif_i as int) =~= patterns@.subrange(0, verif_i as int - 1).push(patterns@[verif_i as int - 1])); assert(word_ids(patterns@.subrange(0, verif_i as int)) =~= word_ids(patterns@.subrange(0, verif_i as int - 1)).push(patterns@[verif_i as int - 1].verif_id)); }'),
            ],
            'ensures': [
                # the answer: whether some pattern of the item parses and matches the whole subject
                'r matches Ok(b) ==> b == (first_match(patterns@, subject@, patterns@.len() as int) is Some)',
                # the patterns are expanded in order, each once, up to and including the first that matches (or the one whose expansion
                # failed): the patterns after it are not expanded
                'r matches Ok(b) ==> ' + E1 + ' =~= ' + E0 + ' + word_ids(patterns@.subrange(0, match first_match(patterns@, subject@, patterns@.len() as int) { Some(k) => k + 1, None => patterns@.len() as int }))',
                'r is Err ==> exists|n: int| 0 < n <= patterns@.len() && ' + E1 + ' =~= ' + E0 + ' + word_ids(patterns@.subrange(0, n)) && first_match(patterns@, subject@, n - 1) is None',
            ]}),
        ('@raw', '}\n'),
    ],
}
