//! Kani harnesses for the loop-level kernel of property C02, injected as a child module of yash-env/src/stack.rs:
//! the real `Stack::loop_count` on every runtime stack of at most four frames.  `break n` / `continue n` leave
//! min(n, loop_count) loops (the Verus unit looplevel proves that from the contract checked here, bounded).
#![allow(dead_code, unused_imports)]
use super::*;

fn frame(k: u8) -> Frame {
    match k % 6 {
        0 => Frame::Loop,
        1 => Frame::Subshell,
        2 => Frame::Condition,
        3 => Frame::DotScript,
        4 => Frame::InitFile,
        _ => Frame::Trap(crate::trap::Condition::Exit),
    }
}

/// reference, written from the documentation of `loop_count` and XCU 2.15 break/continue: the loops that enclose the
/// current command in the current execution environment - counting from the innermost frame outwards, stopping at the
/// first frame that starts another context (subshell, dot script, trap action, init file)
fn reference(kinds: &[u8], max: usize) -> usize {
    let mut n = 0usize;
    let mut i = kinds.len();
    while i > 0 {
        i -= 1;
        match kinds[i] % 6 {
            0 => {
                n += 1;
            }
            2 => {}
            _ => break,
        }
    }
    if n < max { n } else { max }
}

fn check(kinds: &[u8]) {
    let frames: Vec<Frame> = kinds.iter().map(|&k| frame(k)).collect();
    let stack: Stack = frames.into();
    let max: usize = kani::any();
    let got = stack.loop_count(max);
    assert!(got == reference(kinds, max), "loop_count = the enclosing loops of the current context, capped by the argument");
    assert!(got <= max, "never more levels than asked for");
    std::mem::forget(stack);
}

#[kani::proof]
#[kani::unwind(7)]
fn c02q_loop_count_len0_len1() {
    check(&[]);
    let a: u8 = kani::any();
    kani::assume(a < 6);
    check(&[a]);
}
#[kani::proof]
#[kani::unwind(7)]
fn c02q_loop_count_len2() {
    let a: u8 = kani::any();
    let b: u8 = kani::any();
    kani::assume(a < 6 && b < 6);
    check(&[a, b]);
}
#[kani::proof]
#[kani::unwind(7)]
fn c02q_loop_count_len3() {
    let a: u8 = kani::any();
    let b: u8 = kani::any();
    let c: u8 = kani::any();
    kani::assume(a < 6 && b < 6 && c < 6);
    check(&[a, b, c]);
}
#[kani::proof]
#[kani::unwind(8)]
fn c02t_loop_count_len4() {
    let a: u8 = kani::any();
    let b: u8 = kani::any();
    let c: u8 = kani::any();
    let d: u8 = kani::any();
    kani::assume(a < 6 && b < 6 && c < 6 && d < 6);
    check(&[a, b, c, d]);
}
/// negative control: must be refuted (a loop outside a subshell does not count inside it)
#[kani::proof]
#[kani::unwind(7)]
fn c02x_control_loop_outside_subshell_counts() {
    let frames: Vec<Frame> = vec![Frame::Loop, Frame::Subshell];
    let stack: Stack = frames.into();
    assert!(stack.loop_count(usize::MAX) == 1, "control: a loop outside the subshell counts (false)");
    std::mem::forget(stack);
}

// native replay of a Kani counterexample (bin/vcheck replay): the generated test is included here
#[cfg(verif_playback)]
include!("/verif/work/k/playback/loopcount_harness.rs");
