// ---------------------------------------------------------------------------
// Prelude of unit exitbi (property C02, kernel): the `exit` built-in (yash-builtin/src/exit.rs main).
// "... and the break/continue/return/exit built-ins ... the shell's final exit status": the built-in asks for the end of
// the shell with Divert::Exit(status) carrying the operand (None: `$?` as it is - the built-in's own status is the current
// `$?`, which it leaves alone); a malformed call (two operands, a negative or non-numeric operand, an unknown option) is
// an error and asks for no exit; an interactive shell with stopped jobs refuses once (an interrupt with a failure
// status, no exit) unless -f is given.
//
// Hand-written model text (ASSUMED): parse_arguments (bounded-checked by the Kani unit optparse for C20) answers the
// options and operands of the argument vector - every option it hands out is `-f`, the one the table lists; the error
// reporters are opaque calls that answer a result without an Exit divert; `str::parse::<i32>` is an uninterpreted
// helper; the test "interactive, not POSIXly correct, a suspended-jobs guard is configured and some job is stopped" is ONE
// opaque helper (its four conjuncts are not under contract), `!force` in front of it is real code.  Await points dropped.
// ---------------------------------------------------------------------------
pub struct Location { pub verif_opaque: u8 }
pub struct Field { pub value: String, pub origin: Location }
pub struct ParseIntError { pub verif_opaque: u8 }
pub struct ParseError { pub verif_opaque: u8 }
pub struct Mode { pub verif_opaque: u8 }
pub struct OptionSpecTable { pub verif_opaque: u8 }
pub struct OptionSpec { pub verif_short: Option<char> }
pub struct OptionOccurrence { pub spec: OptionSpec }
pub trait Isatty {}
pub trait WriteAll {}
pub struct Env<S> { pub exit_status: ExitStatus, pub verif_errors: Ghost<nat>, pub verif_guard: bool, pub system: S }
pub struct GuardConfig { pub message: String }
impl OptionSpec {
    pub fn get_short(&self) -> (r: Option<char>) ensures r == self.verif_short { self.verif_short }
}
impl Mode {
    #[verifier::external_body]
    pub fn with_env<S>(env: &Env<S>) -> Mode { unimplemented!() }
}
/// the option table of the built-in: one option, `-f` / `--force`
#[verifier::external_body]
pub const OPTIONS: OptionSpecTable = OptionSpecTable { verif_opaque: 0 };
/// what the argument vector says (uninterpreted): the operands and whether -n was given
pub uninterp spec fn args_operands(args: Seq<Field>) -> Seq<Field>;
pub uninterp spec fn args_force(args: Seq<Field>) -> bool;
/// the argument vector is well-formed for the option parser (no unknown option ...)
pub uninterp spec fn args_parse_ok(args: Seq<Field>) -> bool;
#[verifier::external_body]
pub fn parse_arguments(specs: OptionSpecTable, mode: Mode, args: Vec<Field>) -> (r: std::result::Result<(Vec<OptionOccurrence>, Vec<Field>), ParseError>)
    ensures r is Ok <==> args_parse_ok(args@), r matches Ok(p) ==> p.1@ == args_operands(args@) && (forall|i: int| 0 <= i < p.0@.len() ==> (#[trigger] p.0@[i]).spec.verif_short == Some('f')) && (args_force(args@) <==> (exists|i: int| 0 <= i < p.0@.len() && (#[trigger] p.0@[i]).spec.verif_short == Some('f')))
{ unimplemented!() }
/// an error result: reported, and never a Return divert
pub open spec fn error_result(r: Result) -> bool { !(r.divert matches ControlFlow::Break(Divert::Exit(_))) && r.exit_status.0 != 0 }
#[verifier::external_body]
pub fn report_error<S>(env: &mut Env<S>, error: &ParseError) -> (r: Result)
    ensures error_result(r), final(env).exit_status == old(env).exit_status, final(env).verif_errors@ == old(env).verif_errors@ + 1
{ unimplemented!() }
#[verifier::external_body]
pub fn syntax_error<S>(env: &mut Env<S>, message: &str, location: &Location) -> (r: Result)
    ensures error_result(r), final(env).exit_status == old(env).exit_status, final(env).verif_errors@ == old(env).verif_errors@ + 1
{ unimplemented!() }
#[verifier::external_body]
pub fn operand_parse_error<S>(env: &mut Env<S>, location: &Location, error: ParseIntError) -> (r: Result)
    ensures error_result(r), final(env).exit_status == old(env).exit_status, final(env).verif_errors@ == old(env).verif_errors@ + 1
{ unimplemented!() }
/// `arg.value.parse()` at type i32 (std; uninterpreted)
pub uninterp spec fn parsed(s: String) -> std::result::Result<i32, ParseIntError>;
#[verifier::external_body]
pub fn verif_parse_i32(s: &String) -> (r: std::result::Result<i32, ParseIntError>) ensures r == parsed(*s) { unimplemented!() }
/// unreachable!(..): must be dead code
#[verifier::external_body]
pub fn verif_unreachable() requires false { unreachable!() }
/// ASSUMED contract of slice::get / slice::first (Option::unwrap_or has one in vstd)
#[verifier::external_body]
pub fn verif_get<T>(v: &Vec<T>, i: usize) -> (r: Option<&T>) ensures r == (if (i as int) < v@.len() { Some(&v@[i as int]) } else { None }) { v.get(i) }
/// `options.iter().any(|o| o.spec.get_short() == Some('f'))` (std: Iterator::any)
#[verifier::external_body]
pub fn verif_any_short(options: &Vec<OptionOccurrence>, c: char) -> (r: bool)
    ensures r == (exists|i: int| 0 <= i < options@.len() && (#[trigger] options@[i]).spec.verif_short == Some(c))
{ unimplemented!() }
/// `env.is_interactive() && env.options.get(PosixlyCorrect) == Off && let Some(config) = env.any.get::<SuspendedJobsGuardConfig>()
/// && env.jobs.iter().any(|(_, job)| job.state.is_stopped())`: one opaque test
#[verifier::external_body]
pub fn verif_suspended_jobs_guard<S>(env: &Env<S>) -> (r: Option<&GuardConfig>) ensures r is Some <==> env.verif_guard { unimplemented!() }
#[verifier::external_body]
pub fn verif_print_message<S>(env: &mut Env<S>, message: &String)
    ensures final(env).exit_status == old(env).exit_status, final(env).verif_errors@ == old(env).verif_errors@, final(env).verif_guard == old(env).verif_guard
{ unimplemented!() }
/// the message of the guard configuration (copied so that the shared borrow of the environment ends before the message is printed;
/// the real code reads it through a shared reference into `env.any`, which interior mutability of the system allows)
#[verifier::external_body]
pub fn verif_clone_message(config: &GuardConfig) -> (r: String) { config.message.clone() }
