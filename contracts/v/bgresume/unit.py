# Unit bgresume: what `bg` does with a job (kernel of C12).
BG = 'yash-builtin/src/bg.rs'
JOB = 'yash-env/src/job.rs'
MOD_HEAD = '''    use vstd::prelude::*;
'''
S0 = 'old(env).system.log@'
S1 = 'final(env).system.log@'
J0 = 'old(env).jobs.log@'
J1 = 'final(env).jobs.log@'
J = 'old(env).jobs.jobs@[index]'
ALIVE = '(' + J + '.state is Running || (' + J + '.state matches ProcessState::Halted(h) && h is Stopped))'
UNIT = {
    'name': 'bgresume',
    'property': 'C12',
    'rlimit': 80,
    'verus_args': ['--edition=2024'],
    'vacuity_floor': 2,
    'controls': 'auto',
    'items': [
        ('@raw', 'pub mod bgm {\n' + MOD_HEAD),
        (JOB, ['enum ProcessResult'], {}),
        (JOB, ['impl ProcessResult', 'fn is_stopped'], {'ret': 'r', 'ensures': ['r == (*self is Stopped)']}),
        (JOB, ['enum ProcessState'], {}),
        (JOB, ['impl ProcessState', 'fn is_alive'], {'ret': 'r', 'ensures': ['r == (*self is Running || (*self matches ProcessState::Halted(h) && h is Stopped))']}),
        ('@file', 'prelude.rs'),
        (BG, ['fn resume_job_by_index'], {'ret': 'r', 'rewrites': ['strip-async'],
            'sig_token_rewrites': [('S : Signals + SendSignal + WriteAll ,', 'S: Sys,')],
            'token_rewrites': [
                ('env . jobs . get_mut ( index ) . unwrap ( )', 'verif_get_mut(&mut env.jobs, index)'),
                ('let line = format ! ( "[{}] {}\\n" , index + 1 , job . name ) ; env . system . write_all ( Fd :: STDOUT , line . as_bytes ( ) ) . await ? ; drop ( line ) ;', 'verif_write_line(&mut env.system, index, &job.name)?;'),
            ],
            'requires': ['old(env).jobs.jobs@.contains_key(index)'],
            'ensures': [
                # refused: nothing is written, signalled or changed
                '(!' + J + '.is_owned || !' + J + '.job_controlled) ==> r is Err && ' + S1 + ' == ' + S0 + ' && ' + J1 + ' == ' + J0,
                'r is Ok ==> ' + J + '.is_owned && ' + J + '.job_controlled',
                # no job appears or disappears; never a signal but SIGCONT to the job's process group
                'final(env).jobs.jobs@.dom() == old(env).jobs.jobs@.dom()',
                'forall|k: int| ' + S0 + '.len() <= k < ' + S1 + '.len() ==> (#[trigger] ' + S1 + '[k] matches SysEv::Kill { target, cont, ok } ==> cont && target == neg_pid(' + J + '.pid))',
                # success: the report, then SIGCONT exactly when the job is alive; the job is then expected to run; `$!` is its
                # process ID and it is made the current job - in this order, and nothing else
                'r is Ok ==> ' + S1 + ' =~= ' + S0 + '.push(SysEv::Wrote) + (if ' + ALIVE + ' { seq![SysEv::Kill { target: neg_pid(' + J + '.pid), cont: true, ok: true }] } else { Seq::empty() })',
                'r is Ok ==> ' + J1 + ' =~= ' + J0 + ' + (if ' + ALIVE + ' { seq![JobEv::ExpectRunning { index }] } else { Seq::empty() }).push(JobEv::LastAsync { pid: ' + J + '.pid }).push(JobEv::Current { index })',
            ]}),
        ('@raw', '}\n'),
    ],
}
