// ---------------------------------------------------------------------------
// Prelude of unit cmdlist (properties C02 / C11, kernel): yash-semantics/src/command.rs, the two `execute` at the top of
// the command tree.
// C02 "sequential lists ... the commands that run, their order": the items of a list run in order, each exactly once, up
// to and including the first one that diverts, whose divert is handed on unchanged; nothing runs after it.
// C11 "each delivery of a trapped signal makes its action run ... at the next command boundary": after EVERY command -
// simple, compound or function definition, exactly one of which runs, once - the traps for caught signals are run
// exactly once and then the job statuses are refreshed; the result is the command's unless only the traps diverted, and the
// more severe of the two diverts if both did.
//
// Hand-written model text (ASSUMED): executing a simple command / compound command / function definition / item,
// run_traps_for_caught_signals (unit trapsrun), update_all_subshell_statuses (unit waitsub) are opaque calls that append to
// an event log; Ord::max on Divert (derived Ord) is a helper with the std meaning over an uninterpreted order;
// `Box::pin(async move { .. }).await` is checked as the block itself (it exists only to break the recursion of the future
// type); `for item in &self.0` is a while loop over the index.  Await points dropped.
// ---------------------------------------------------------------------------
pub assume_specification<B, C>[ <ControlFlow<B, C> as core::ops::Try>::branch ](cf: ControlFlow<B, C>) -> (r: ControlFlow<<ControlFlow<B, C> as core::ops::Try>::Residual, <ControlFlow<B, C> as core::ops::Try>::Output>)
    ensures match cf { ControlFlow::Continue(c) => r == ControlFlow::<ControlFlow<B, core::convert::Infallible>, C>::Continue(c), ControlFlow::Break(b) => r == ControlFlow::<ControlFlow<B, core::convert::Infallible>, C>::Break(ControlFlow::Break(b)) };
pub assume_specification<B, C>[ <ControlFlow<B, C> as core::ops::FromResidual<ControlFlow<B, core::convert::Infallible>>>::from_residual ](res: ControlFlow<B, core::convert::Infallible>) -> (r: ControlFlow<B, C>)
    ensures res matches ControlFlow::Break(b) ==> r == ControlFlow::<B, C>::Break(b);
pub trait Runtime {}
pub enum Ev { Simple { id: int, result: Result }, Compound { id: int, result: Result }, FunctionDef { id: int, result: Result }, Item { id: int, result: Result },
    Traps { result: Result }, UpdateStatuses }
pub struct Env<S> { pub log: Ghost<Seq<Ev>>, pub system: S }
pub struct SimpleCommand { pub verif_id: int }
pub struct FullCompoundCommand { pub verif_id: int }
pub struct FunctionDefinition { pub verif_id: int }
pub struct Item { pub verif_id: int }
pub mod syntax {
    pub use super::Item;
    pub enum Command { Simple(super::SimpleCommand), Compound(super::FullCompoundCommand), Function(super::FunctionDefinition) }
    pub struct List(pub Vec<Item>);
}
pub trait Command<S> { fn execute(&self, env: &mut Env<S>) -> Result; }
impl SimpleCommand {
    #[verifier::external_body]
    pub fn execute<S>(&self, env: &mut Env<S>) -> (r: Result) ensures final(env).log@ == old(env).log@.push(Ev::Simple { id: self.verif_id, result: r }) { unimplemented!() }
}
impl FullCompoundCommand {
    #[verifier::external_body]
    pub fn execute<S>(&self, env: &mut Env<S>) -> (r: Result) ensures final(env).log@ == old(env).log@.push(Ev::Compound { id: self.verif_id, result: r }) { unimplemented!() }
}
impl FunctionDefinition {
    #[verifier::external_body]
    pub fn execute<S>(&self, env: &mut Env<S>) -> (r: Result) ensures final(env).log@ == old(env).log@.push(Ev::FunctionDef { id: self.verif_id, result: r }) { unimplemented!() }
}
impl Item {
    #[verifier::external_body]
    pub fn execute<S>(&self, env: &mut Env<S>) -> (r: Result) ensures final(env).log@ == old(env).log@.push(Ev::Item { id: self.verif_id, result: r }) { unimplemented!() }
}
#[verifier::external_body]
pub fn run_traps_for_caught_signals<S>(env: &mut Env<S>) -> (r: Result) ensures final(env).log@ == old(env).log@.push(Ev::Traps { result: r }) { unimplemented!() }
impl<S> Env<S> {
    #[verifier::external_body]
    pub fn update_all_subshell_statuses(&mut self) ensures final(self).log@ == old(self).log@.push(Ev::UpdateStatuses) { unimplemented!() }
}
/// the derived order on Divert (declaration order of the variants, then the payload): uninterpreted here
pub uninterp spec fn divert_max(a: Divert, b: Divert) -> Divert;
impl Divert {
    /// Ord::max (std) for the derived Ord
    #[verifier::external_body]
    pub fn max(self, other: Divert) -> (r: Divert) ensures r == divert_max(self, other) { unimplemented!() }
}
pub open spec fn what_ran(c: syntax::Command, result: Result) -> Ev {
    match c {
        syntax::Command::Simple(x) => Ev::Simple { id: x.verif_id, result },
        syntax::Command::Compound(x) => Ev::Compound { id: x.verif_id, result },
        syntax::Command::Function(x) => Ev::FunctionDef { id: x.verif_id, result },
    }
}
pub open spec fn combine(main: Result, trap: Result) -> Result {
    match (main, trap) {
        (_, ControlFlow::Continue(_)) => main,
        (ControlFlow::Continue(_), _) => trap,
        (ControlFlow::Break(m), ControlFlow::Break(t)) => ControlFlow::Break(divert_max(m, t)),
    }
}
pub open spec fn ev_result(e: Ev) -> Result {
    match e {
        Ev::Simple { id, result } => result, Ev::Compound { id, result } => result, Ev::FunctionDef { id, result } => result,
        Ev::Item { id, result } => result, Ev::Traps { result } => result, Ev::UpdateStatuses => ControlFlow::Continue(()),
    }
}
