// ---------------------------------------------------------------------------
// Reference evaluator of the reverse-Polish AST (unit arith_eval), written from the property
// statement: C value semantics, left-to-right evaluation, short-circuit `||` `&&` `?:`
// (the unselected operand is not evaluated at all: no side effect, no error).
// ---------------------------------------------------------------------------
pub type Vars = Map<Seq<char>, Seq<char>>;

/// Outcome of evaluating (part of) an expression from a given variable store.
pub enum Sem<'a> {
    /// evaluation succeeds with this term and leaves this store
    Val(Term<'a>, Vars),
    /// evaluation must report an error (the store at that point is not constrained)
    Error,
    /// undefined in C with no error demanded (only `i64::MIN % -1`): anything is accepted from here on
    Any,
}

pub open spec fn f_var_value<E: Env>(vars: Vars, name: Seq<char>) -> Option<i64> {
    if E::get_fails(name) { None }
    else if !vars.contains_key(name) { Some(0i64) }
    else { value_spec(vars[name]) }
}

pub open spec fn f_term_value<E: Env>(vars: Vars, t: Term) -> Option<i64> {
    match t {
        Term::Value(Value::Integer(i)) => Some(i),
        Term::Variable { name, location } => f_var_value::<E>(vars, name@),
    }
}

pub open spec fn val<'a>(v: i64, vars: Vars) -> Sem<'a> { Sem::Val(Term::Value(Value::Integer(v)), vars) }

pub open spec fn f_assign<'a, E: Env>(vars: Vars, name: Seq<char>, v: i64, ret: i64) -> Sem<'a> {
    if E::assign_fails(name, dec(v)) { Sem::Error } else { val(ret, vars.insert(name, dec(v))) }
}

pub open spec fn f_incdec<'a, E: Env>(vars: Vars, term: Term, d: int, ret_new: bool) -> Sem<'a> {
    match term {
        Term::Value(_) => Sem::Error,
        Term::Variable { name, location } => match f_var_value::<E>(vars, name@) {
            None => Sem::Error,
            Some(v) => if !fits(v + d) { Sem::Error } else { f_assign::<E>(vars, name@, (v + d) as i64, if ret_new { (v + d) as i64 } else { v }) },
        },
    }
}

pub open spec fn f_prefix<'a, E: Env>(vars: Vars, term: Term, op: PrefixOperator) -> Sem<'a> {
    match op {
        PrefixOperator::Increment => f_incdec::<E>(vars, term, 1, true),
        PrefixOperator::Decrement => f_incdec::<E>(vars, term, -1, true),
        _ => match f_term_value::<E>(vars, term) {
            None => Sem::Error,
            Some(v) => match op {
                PrefixOperator::NumericCoercion => val(v, vars),
                PrefixOperator::NumericNegation => if fits(-v) { val((-v) as i64, vars) } else { Sem::Error },
                PrefixOperator::LogicalNegation => val(b2i(v == 0) as i64, vars),
                _ => val((-v - 1) as i64, vars),
            },
        },
    }
}

pub open spec fn f_postfix<'a, E: Env>(vars: Vars, term: Term, op: PostfixOperator) -> Sem<'a> {
    match op {
        PostfixOperator::Increment => f_incdec::<E>(vars, term, 1, false),
        PostfixOperator::Decrement => f_incdec::<E>(vars, term, -1, false),
    }
}

/// value of `l op r`: Some(Some(v)) exact value, Some(None) error demanded, None = anything (the rem corner)
pub open spec fn f_binop(op: BinaryOperator, l: i64, r: i64) -> Option<Option<i64>> {
    let rem_corner = (op is Remainder || op is RemainderAssign) && l == i64::MIN && r == -1;
    if rem_corner { None }
    else {
        match sem_bin(op, l as int, r as int) {
            None => Some(None),
            Some(v) => if fits(v) { Some(Some(v as i64)) } else { Some(None) },
        }
    }
}

pub open spec fn f_binary<'a, E: Env>(vars: Vars, lhs: Term, rhs: Term, op: BinaryOperator) -> Sem<'a> {
    if op is Assign {
        match lhs {
            Term::Value(_) => Sem::Error,
            Term::Variable { name, location } => match f_term_value::<E>(vars, rhs) {
                None => Sem::Error,
                Some(r) => f_assign::<E>(vars, name@, r, r),
            },
        }
    } else if is_compound(op) {
        match lhs {
            Term::Value(_) => Sem::Error,
            Term::Variable { name, location } => match (f_var_value::<E>(vars, name@), f_term_value::<E>(vars, rhs)) {
                (Some(l), Some(r)) => match f_binop(op, l, r) {
                    None => Sem::Any,
                    Some(None) => Sem::Error,
                    Some(Some(v)) => f_assign::<E>(vars, name@, v, v),
                },
                _ => Sem::Error,
            },
        }
    } else {
        match (f_term_value::<E>(vars, lhs), f_term_value::<E>(vars, rhs)) {
            (Some(l), Some(r)) => match f_binop(op, l, r) {
                None => Sem::Any,
                Some(None) => Sem::Error,
                Some(Some(v)) => val(v, vars),
            },
            _ => Sem::Error,
        }
    }
}

/// The result `res` with final store `post` is what `sem` prescribes.
pub open spec fn sem_ok<X>(sem: Sem, res: Result<Term, X>, post: Vars) -> bool {
    match sem {
        Sem::Val(t, v) => res == Ok::<Term, X>(t) && post == v,
        Sem::Error => res is Err,
        Sem::Any => true,
    }
}
pub open spec fn sem_ok_v<X>(sem: Sem, res: Result<Value, X>, post: Vars) -> bool {
    match sem {
        Sem::Val(t, v) => res is Ok && t == Term::Value(res->Ok_0) && post == v,
        Sem::Error => res is Err,
        Sem::Any => true,
    }
}

// ---- shape of the reverse-Polish vector ---------------------------------------------------
pub open spec fn children(ast: Seq<Ast>) -> Seq<Ast> { ast.drop_last() }

/// Well-formed RPN: every operator node is preceded by exactly its operand subtrees.
pub open spec fn wf(ast: Seq<Ast>) -> bool
    decreases ast.len()
{
    ast.len() > 0 && match ast.last() {
        Ast::Term(_) => ast.len() == 1,
        Ast::Prefix { .. } => wf(children(ast)),
        Ast::Postfix { .. } => wf(children(ast)),
        Ast::Binary { operator, rhs_len, location } => {
            let c = children(ast);
            0 < rhs_len < c.len() && wf(c.subrange(0, c.len() - rhs_len)) && wf(c.subrange(c.len() - rhs_len, c.len() as int))
        },
        Ast::Conditional { then_len, else_len } => {
            let c = children(ast);
            let c2 = c.subrange(0, c.len() - else_len);
            0 < else_len < c.len() && 0 < then_len < c2.len()
            && wf(c.subrange(c.len() - else_len, c.len() as int))
            && wf(c2.subrange(c2.len() - then_len, c2.len() as int))
            && wf(c2.subrange(0, c2.len() - then_len))
        },
    }
}

/// Value of an evaluated operand (error if the variable it names cannot be read as a number).
pub open spec fn f_into_value<E: Env>(s: Sem) -> Option<Option<(i64, Vars)>> {
    match s {
        Sem::Val(t, v) => match f_term_value::<E>(v, t) { Some(i) => Some(Some((i, v))), None => Some(None) },
        Sem::Error => Some(None),
        Sem::Any => None,
    }
}

pub open spec fn sem_eval<'a, E: Env>(ast: Seq<Ast<'a>>, vars: Vars) -> Sem<'a>
    decreases ast.len()
{
    if !wf(ast) { Sem::Any } else {
        match ast.last() {
            Ast::Term(t) => Sem::Val(t, vars),
            Ast::Prefix { operator, location } => match sem_eval::<E>(children(ast), vars) {
                Sem::Val(t, v) => f_prefix::<E>(v, t, operator),
                other => other,
            },
            Ast::Postfix { operator, location } => match sem_eval::<E>(children(ast), vars) {
                Sem::Val(t, v) => f_postfix::<E>(v, t, operator),
                other => other,
            },
            Ast::Binary { operator, rhs_len, location } => {
                let c = children(ast);
                let lhs_ast = c.subrange(0, c.len() - rhs_len);
                let rhs_ast = c.subrange(c.len() - rhs_len, c.len() as int);
                if operator is LogicalOr || operator is LogicalAnd {
                    match f_into_value::<E>(sem_eval::<E>(lhs_ast, vars)) {
                        None => Sem::Any,
                        Some(None) => Sem::Error,
                        Some(Some((l, v1))) =>
                            // short circuit: the right operand is not evaluated at all
                            if operator is LogicalOr && l != 0 { val(1, v1) }
                            else if operator is LogicalAnd && l == 0 { val(0, v1) }
                            else {
                                match f_into_value::<E>(sem_eval::<E>(rhs_ast, v1)) {
                                    None => Sem::Any,
                                    Some(None) => Sem::Error,
                                    Some(Some((r, v2))) => val(b2i(r != 0) as i64, v2),
                                }
                            },
                    }
                } else {
                    match sem_eval::<E>(lhs_ast, vars) {
                        Sem::Val(lt, v1) => match sem_eval::<E>(rhs_ast, v1) {
                            Sem::Val(rt, v2) => f_binary::<E>(v2, lt, rt, operator),
                            other => other,
                        },
                        other => other,
                    }
                }
            },
            Ast::Conditional { then_len, else_len } => {
                let c = children(ast);
                let c2 = c.subrange(0, c.len() - else_len);
                let else_ast = c.subrange(c.len() - else_len, c.len() as int);
                let then_ast = c2.subrange(c2.len() - then_len, c2.len() as int);
                let cond_ast = c2.subrange(0, c2.len() - then_len);
                match f_into_value::<E>(sem_eval::<E>(cond_ast, vars)) {
                    None => Sem::Any,
                    Some(None) => Sem::Error,
                    // only the selected branch is evaluated
                    Some(Some((cnd, v1))) => if cnd != 0 { sem_eval::<E>(then_ast, v1) } else { sem_eval::<E>(else_ast, v1) },
                }
            },
        }
    }
}

// ---- std / derive facts needed by `eval` ---------------------------------------------------
pub assume_specification<T>[ <[T]>::split_last ](s: &[T]) -> (r: Option<(&T, &[T])>)
    ensures
        s@.len() == 0 ==> r is None,
        s@.len() > 0 ==> r is Some && ({ let p = r->0; *(p.0) == s@.last() && (p.1)@ == s@.drop_last() });

/// what `#[derive(Clone)]` yields for `Term` (the derive is dropped from the extracted enum because Verus
/// attaches no specification to derived, non-Copy `Clone` impls)
impl<'a> Clone for Term<'a> {
    fn clone(&self) -> (r: Self)
        ensures r == *self
    {
        match self {
            Term::Value(v) => Term::Value(*v),
            Term::Variable { name, location } => Term::Variable { name: *name, location: Range { start: location.start, end: location.end } },
        }
    }
}

impl vstd::std_specs::cmp::PartialEqSpecImpl for Value {
    open spec fn obeys_eq_spec() -> bool { true }
    open spec fn eq_spec(&self, other: &Value) -> bool { *self == *other }
}
