// ---------------------------------------------------------------------------
// Prelude of unit lineread (property C18, kernel): the byte-at-a-time line reader of the shell's own input
// (yash-env/src/input/fd_reader_2.rs FdReader2::next_line) and of the read built-in (yash-builtin/src/read/input.rs
// read_char).
//
// Hand-written model text (ASSUMED): the system side of a descriptor.  The real trait `Read` takes `&self` and returns
// a future; here the call is synchronous and takes `&mut self` so that its effect has a specification.
// `consumed(fd)` is everything the system has handed out from fd so far -- what no other reader of the same open file
// description will see again -- and `at_eof(fd)` whether a read has reported end of input.  Await points are dropped.
// ---------------------------------------------------------------------------
pub type RawFd = i32;

pub trait Read {
    spec fn consumed(&self, fd: Fd) -> Seq<u8>;
    spec fn at_eof(&self, fd: Fd) -> bool;
    /// POSIX read: the next bytes of the stream fill a beginning of the buffer (never more than the buffer holds); a
    /// count of zero for a non-empty buffer is the end of input; an error moves nothing
    fn read(&mut self, fd: Fd, buffer: &mut [u8]) -> (r: std::result::Result<usize, Errno>)
        ensures
            final(buffer)@.len() == old(buffer)@.len(),
            match r {
                Ok(n) => n <= old(buffer)@.len()
                    && final(self).consumed(fd) == old(self).consumed(fd) + final(buffer)@.take(n as int)
                    && final(buffer)@.skip(n as int) == old(buffer)@.skip(n as int)
                    && (n == 0 && old(buffer)@.len() > 0 ==> final(self).at_eof(fd)),
                Err(_) => final(self).consumed(fd) == old(self).consumed(fd) && final(buffer)@ == old(buffer)@,
            },
            forall|other: Fd| other != fd ==> final(self).consumed(other) == old(self).consumed(other);
}

/// ASSUMED contract of core::slice::from_mut: a one-element slice over the place; what is written through it is what
/// the place holds afterwards
pub assume_specification<T>[ core::slice::from_mut::<T> ](s: &mut T) -> (r: &mut [T])
    ensures r@ == seq![*old(s)], final(r)@.len() == 1 ==> *final(s) == final(r)@[0];

// derived PartialEq / Copy of Fd (ASSUMED structural)
impl vstd::std_specs::cmp::PartialEqSpecImpl for Fd {
    open spec fn obeys_eq_spec() -> bool { true }
    open spec fn eq_spec(&self, other: &Fd) -> bool { *self == *other }
}

/// placeholders: the reader's context argument (unused by this reader) and std::io::Error
pub struct Context { pub is_first_line: bool }
pub struct Error { pub verif_opaque: u8 }
pub type Result = std::result::Result<String, Error>;
impl From<Errno> for Error {
    #[verifier::external_body]
    fn from(e: Errno) -> (r: Error) { unimplemented!() }
}
impl vstd::std_specs::convert::FromSpecImpl<Errno> for Error {
    open spec fn obeys_from_spec() -> bool { false }
    uninterp spec fn from_spec(e: Errno) -> Error;
}
/// the text a byte string stands for (UTF-8, invalid sequences replaced): what
/// `String::from_utf8(bytes).unwrap_or_else(|e| String::from_utf8_lossy(&e.into_bytes()).into())` computes; ASSUMED
pub uninterp spec fn lossy_text(bytes: Seq<u8>) -> Seq<char>;
#[verifier::external_body]
pub fn verif_bytes_to_string(bytes: Vec<u8>) -> (r: String)
    ensures r@ == lossy_text(bytes@)
{
    String::from_utf8(bytes).unwrap_or_else(|e| String::from_utf8_lossy(&e.into_bytes()).into())
}

/// C18 for one line: the bytes taken from the descriptor are a run without a newline, possibly followed by one newline
/// -- nothing beyond the first newline has been consumed
pub open spec fn one_line(bytes: Seq<u8>) -> bool {
    forall|i: int| 0 <= i < bytes.len() - 1 ==> bytes[i] != 10u8
}
