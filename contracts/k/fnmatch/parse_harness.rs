//! Kani contracts for the bracket-expression parser (property C04), injected as a child module of
//! yash-fnmatch/src/ast/parse.rs.  "quoted or backslash-escaped characters match only themselves":
//! a `PatternChar::Literal` inside a bracket expression is always a plain member of the set.
#![allow(dead_code, unused_imports)]
use super::*;
use crate::PatternChar::{self, Literal, Normal};

/// Symbolic letters made these harnesses run out of memory (moves of `BracketItem`, which carries
/// `String` payloads, are modelled byte-wise by CBMC); the members are therefore the fixed letters
/// `a` and `z` and only the pattern structure is explored.  Labelled bounded(concrete members).
fn letter(first: bool) -> char {
    if first { 'a' } else { 'z' }
}

fn is_char_item(item: &BracketItem, c: char) -> bool {
    matches!(item, BracketItem::Atom(BracketAtom::Char(x)) if *x == c)
}

// NOTE: harnesses that run `Bracket::parse` on a closed bracket expression (for the clause "quoted
// characters match only themselves inside a bracket expression": `[a\-z]`, `[a\]z]`, `[\!a]`) were
// written and had to be withdrawn: even with fully concrete input CBMC ran out of time (900 s) and memory
// on the `Vec<BracketItem>` pops and pushes of `make_range` (items carry `String` payloads).  That
// clause is therefore NOT checked; see DESIGN.md, finding F2.

/// an unclosed `[` is literal
#[kani::proof]
#[kani::unwind(8)]
fn c04q_unclosed_bracket_is_literal() {
    let x = letter(true);
    let p = [Normal('['), Normal(x)];
    match Atom::parse(p.into_iter()) {
        Some((atom, _)) => {
            assert!(atom == Atom::Char('['), "an unclosed [ is the literal character");
            std::mem::forget(atom);
        }
        None => assert!(false),
    }
}

// ---- inner expressions `[.x.]` `[=x=]` `[:x:]` --------------------------------------------------
// Reference (XBD 9.3.5 items 4-6): after `[` and the delimiter d, the expression extends to the FIRST
// unquoted `d]`; the content is taken literally.  Returns (kind, content, characters consumed).
fn ref_inner(s: &[PatternChar]) -> Option<(u8, [char; 4], usize, usize)> {
    let d = match s.first() {
        Some(Normal('.')) => '.',
        Some(Normal('=')) => '=',
        Some(Normal(':')) => ':',
        _ => return None,
    };
    let t = &s[1..];
    let mut k = 0;
    while k + 1 < t.len() {
        if t[k] == Normal(d) && t[k + 1] == Normal(']') {
            let mut content = ['\0'; 4];
            let mut n = 0;
            while n < k {
                content[n] = t[n].char_value();
                n += 1;
            }
            let kind = if d == '.' { 0 } else if d == '=' { 1 } else { 2 };
            return Some((kind, content, k, k + 3));
        }
        k += 1;
    }
    None
}

fn check_inner(s: &[PatternChar]) {
    let expected = ref_inner(s);
    match BracketAtom::parse_inner(s.iter().copied()) {
        None => assert!(expected.is_none(), "parse_inner: None only without a closing delimiter"),
        Some((atom, rest)) => {
            let (kind, content, len, consumed) = match expected {
                Some(e) => e,
                None => {
                    assert!(false, "parse_inner: no inner expression without a closing delimiter");
                    return;
                }
            };
            let (k, value) = match &atom {
                BracketAtom::CollatingSymbol(v) => (0, v),
                BracketAtom::EquivalenceClass(v) => (1, v),
                BracketAtom::CharClass(v) => (2, v),
                BracketAtom::Char(_) => {
                    assert!(false, "parse_inner: never a plain character");
                    return;
                }
            };
            assert!(k == kind, "parse_inner: kind of the inner expression");
            assert!(value.chars().count() == len, "parse_inner: the expression ends at the FIRST delimiter followed by ]");
            let mut n = 0;
            for c in value.chars() {
                assert!(c == content[n], "parse_inner: the content is taken literally");
                n += 1;
            }
            assert!(rest.count() == s.len() - consumed, "parse_inner: what follows the expression is left to the caller");
            std::mem::forget(atom);
        }
    }
}

macro_rules! inner_case {
    ($name:ident, $($pc:expr),*) => {
        #[kani::proof]
        #[kani::unwind(10)]
        fn $name() {
            check_inner(&[$($pc),*]);
        }
    };
}
inner_case!(c04q_inner_dots, Normal('.'), Normal('.'), Normal('.'), Normal(']'), Normal(']'));
inner_case!(c04q_inner_equals, Normal('='), Normal('='), Normal('='), Normal(']'), Normal('a'));
inner_case!(c04q_inner_delim_inside, Normal('.'), Normal('a'), Normal('.'), Normal('b'), Normal('.'), Normal(']'));
inner_case!(c04q_inner_class, Normal(':'), Normal('a'), Normal(':'), Normal(']'), Normal(':'), Normal(']'));
inner_case!(c04q_inner_bracket_first, Normal('.'), Normal(']'), Normal('.'), Normal(']'));
inner_case!(c04q_inner_quoted_delim, Normal('.'), Literal('.'), Normal(']'), Normal('.'), Normal(']'));
inner_case!(c04q_inner_quoted_close, Normal('='), Normal('='), Literal(']'), Normal('a'));
inner_case!(c04q_inner_unclosed, Normal(':'), Normal('a'), Normal(':'));
inner_case!(c04q_inner_empty, Normal('.'), Normal('.'), Normal(']'));
inner_case!(c04q_inner_not_inner, Normal('a'), Normal('.'), Normal(']'));

// (Symbolic contents -- every input of length 4-5 over {d, ], a, quoted d, quoted ]} -- were tried and did not finish
// in 900 s; the inner expressions are therefore checked on the ten concrete inputs above, and for EVERY input by the
// Verus unit fnparse.)

// native replay of a Kani counterexample (bin/vcheck replay): the generated test is included here
#[cfg(verif_playback)]
include!("/verif/work/k/playback/fnmatch_parse_harness.rs");
