//! Linear-scan stand-in for `std::collections::{HashMap, BTreeMap}` used ONLY in the
//! scratch copy that Kani analyses (cfg(verif_map)); see /verif/DESIGN.md 1.1-3.
//! It implements exactly the API subset the substituted files use.  Assumed contract
//! on the dependency: std's maps behave as finite maps.  Iteration order here is
//! insertion order (std: unspecified for HashMap, key order for BTreeMap); contracts
//! never depend on it.
#![allow(dead_code)]
use std::borrow::Borrow;

#[derive(Clone, Debug)]
pub struct LinMap<K, V> {
    pub(crate) items: Vec<(K, V)>,
}

pub type HashMap<K, V> = LinMap<K, V>;
pub type BTreeMap<K, V> = LinMap<K, V>;

impl<K, V> Default for LinMap<K, V> {
    fn default() -> Self {
        LinMap { items: Vec::new() }
    }
}

impl<K: PartialEq, V: PartialEq> PartialEq for LinMap<K, V> {
    fn eq(&self, other: &Self) -> bool {
        if self.items.len() != other.items.len() {
            return false;
        }
        let mut i = 0;
        while i < self.items.len() {
            let (k, v) = &self.items[i];
            let mut found = false;
            let mut j = 0;
            while j < other.items.len() {
                if other.items[j].0 == *k {
                    found = other.items[j].1 == *v;
                    break;
                }
                j += 1;
            }
            if !found {
                return false;
            }
            i += 1;
        }
        true
    }
}
impl<K: Eq, V: Eq> Eq for LinMap<K, V> {}

impl<K, V> LinMap<K, V> {
    pub fn new() -> Self {
        LinMap { items: Vec::new() }
    }
    pub fn with_capacity(n: usize) -> Self {
        LinMap { items: Vec::with_capacity(n) }
    }
    pub fn len(&self) -> usize {
        self.items.len()
    }
    pub fn is_empty(&self) -> bool {
        self.items.is_empty()
    }
    pub fn clear(&mut self) {
        self.items.clear()
    }
    pub fn iter(&self) -> Iter<'_, K, V> {
        Iter { items: &self.items, pos: 0 }
    }
    pub fn iter_mut(&mut self) -> IterMut<'_, K, V> {
        IterMut { inner: self.items.iter_mut() }
    }
    pub fn values(&self) -> impl Iterator<Item = &V> {
        self.items.iter().map(|kv| &kv.1)
    }
    pub fn values_mut(&mut self) -> impl Iterator<Item = &mut V> {
        self.items.iter_mut().map(|kv| &mut kv.1)
    }
    pub fn keys(&self) -> impl Iterator<Item = &K> {
        self.items.iter().map(|kv| &kv.0)
    }
    pub fn retain<F: FnMut(&K, &mut V) -> bool>(&mut self, mut f: F) {
        self.items.retain_mut(|kv| f(&kv.0, &mut kv.1))
    }
}

impl<K: Eq, V> LinMap<K, V> {
    fn position<Q: ?Sized + Eq>(&self, k: &Q) -> Option<usize>
    where
        K: Borrow<Q>,
    {
        let mut i = 0;
        while i < self.items.len() {
            if self.items[i].0.borrow() == k {
                return Some(i);
            }
            i += 1;
        }
        None
    }
    pub fn get<Q: ?Sized + Eq>(&self, k: &Q) -> Option<&V>
    where
        K: Borrow<Q>,
    {
        match self.position(k) {
            Some(i) => Some(&self.items[i].1),
            None => None,
        }
    }
    pub fn get_mut<Q: ?Sized + Eq>(&mut self, k: &Q) -> Option<&mut V>
    where
        K: Borrow<Q>,
    {
        match self.position(k) {
            Some(i) => Some(&mut self.items[i].1),
            None => None,
        }
    }
    pub fn contains_key<Q: ?Sized + Eq>(&self, k: &Q) -> bool
    where
        K: Borrow<Q>,
    {
        self.position(k).is_some()
    }
    pub fn remove<Q: ?Sized + Eq>(&mut self, k: &Q) -> Option<V>
    where
        K: Borrow<Q>,
    {
        match self.position(k) {
            Some(i) => Some(self.items.remove(i).1),
            None => None,
        }
    }
    pub fn insert(&mut self, k: K, v: V) -> Option<V> {
        match self.position(&k) {
            Some(i) => Some(std::mem::replace(&mut self.items[i].1, v)),
            None => {
                self.items.push((k, v));
                None
            }
        }
    }
    pub fn entry(&mut self, k: K) -> Entry<'_, K, V> {
        match self.position(&k) {
            Some(i) => Entry::Occupied(OccupiedEntry { map: self, index: i, key: k }),
            None => Entry::Vacant(VacantEntry { map: self, key: k }),
        }
    }
}

impl<K: Eq, V, Q: ?Sized + Eq> std::ops::Index<&Q> for LinMap<K, V>
where
    K: Borrow<Q>,
{
    type Output = V;
    fn index(&self, k: &Q) -> &V {
        self.get(k).expect("no entry found for key")
    }
}

pub enum Entry<'a, K, V> {
    Occupied(OccupiedEntry<'a, K, V>),
    Vacant(VacantEntry<'a, K, V>),
}

impl<'a, K: Eq, V> Entry<'a, K, V> {
    pub fn or_insert(self, default: V) -> &'a mut V {
        match self {
            Entry::Occupied(e) => e.into_mut(),
            Entry::Vacant(e) => e.insert(default),
        }
    }
    pub fn or_insert_with<F: FnOnce() -> V>(self, f: F) -> &'a mut V {
        match self {
            Entry::Occupied(e) => e.into_mut(),
            Entry::Vacant(e) => e.insert(f()),
        }
    }
    pub fn or_default(self) -> &'a mut V
    where
        V: Default,
    {
        self.or_insert_with(V::default)
    }
    pub fn key(&self) -> &K {
        match self {
            Entry::Occupied(e) => e.key(),
            Entry::Vacant(e) => e.key(),
        }
    }
}

pub struct OccupiedEntry<'a, K, V> {
    map: &'a mut LinMap<K, V>,
    index: usize,
    key: K,
}

impl<'a, K, V> OccupiedEntry<'a, K, V> {
    pub fn key(&self) -> &K {
        &self.map.items[self.index].0
    }
    pub fn get(&self) -> &V {
        &self.map.items[self.index].1
    }
    pub fn get_mut(&mut self) -> &mut V {
        &mut self.map.items[self.index].1
    }
    pub fn into_mut(self) -> &'a mut V {
        &mut self.map.items[self.index].1
    }
    pub fn insert(&mut self, v: V) -> V {
        std::mem::replace(&mut self.map.items[self.index].1, v)
    }
    pub fn remove(self) -> V {
        self.map.items.remove(self.index).1
    }
    pub fn remove_entry(self) -> (K, V) {
        self.map.items.remove(self.index)
    }
}

pub struct VacantEntry<'a, K, V> {
    map: &'a mut LinMap<K, V>,
    key: K,
}

impl<'a, K, V> VacantEntry<'a, K, V> {
    pub fn key(&self) -> &K {
        &self.key
    }
    pub fn into_key(self) -> K {
        self.key
    }
    pub fn insert(self, v: V) -> &'a mut V {
        self.map.items.push((self.key, v));
        let n = self.map.items.len() - 1;
        &mut self.map.items[n].1
    }
}

#[derive(Clone, Debug)]
pub struct Iter<'a, K, V> {
    items: &'a [(K, V)],
    pos: usize,
}

impl<'a, K, V> Iterator for Iter<'a, K, V> {
    type Item = (&'a K, &'a V);
    fn next(&mut self) -> Option<(&'a K, &'a V)> {
        if self.pos < self.items.len() {
            let kv = &self.items[self.pos];
            self.pos += 1;
            Some((&kv.0, &kv.1))
        } else {
            None
        }
    }
    fn size_hint(&self) -> (usize, Option<usize>) {
        let n = self.items.len() - self.pos;
        (n, Some(n))
    }
}
impl<K, V> ExactSizeIterator for Iter<'_, K, V> {}
impl<K, V> std::iter::FusedIterator for Iter<'_, K, V> {}

pub struct IterMut<'a, K, V> {
    inner: std::slice::IterMut<'a, (K, V)>,
}

impl<'a, K, V> Iterator for IterMut<'a, K, V> {
    type Item = (&'a K, &'a mut V);
    fn next(&mut self) -> Option<(&'a K, &'a mut V)> {
        self.inner.next().map(|kv| (&kv.0, &mut kv.1))
    }
}

impl<'a, K, V> IntoIterator for &'a LinMap<K, V> {
    type Item = (&'a K, &'a V);
    type IntoIter = Iter<'a, K, V>;
    fn into_iter(self) -> Iter<'a, K, V> {
        self.iter()
    }
}

impl<'a, K, V> IntoIterator for &'a mut LinMap<K, V> {
    type Item = (&'a K, &'a mut V);
    type IntoIter = IterMut<'a, K, V>;
    fn into_iter(self) -> IterMut<'a, K, V> {
        self.iter_mut()
    }
}

impl<K: Eq, V> FromIterator<(K, V)> for LinMap<K, V> {
    fn from_iter<T: IntoIterator<Item = (K, V)>>(iter: T) -> Self {
        let mut m = LinMap::new();
        for (k, v) in iter {
            m.insert(k, v);
        }
        m
    }
}

impl<K: Eq, V> Extend<(K, V)> for LinMap<K, V> {
    fn extend<T: IntoIterator<Item = (K, V)>>(&mut self, iter: T) {
        for (k, v) in iter {
            self.insert(k, v);
        }
    }
}

pub mod hash_map {
    pub use super::{Entry, Iter, IterMut, OccupiedEntry, VacantEntry};
}
pub mod btree_map {
    pub use super::{Entry, Iter, IterMut, OccupiedEntry, VacantEntry};
}
