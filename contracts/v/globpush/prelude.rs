// ---------------------------------------------------------------------------
// Prelude of unit globpush (property C05, kernel): yash-semantics/src/expansion/glob.rs SearchEnv::push_component - the step that
// appends one component to the path being built and either delivers the path or descends.
// C05 "never returns a nonexistent path ... exactly the existing pathnames": at the last component the path - exactly what was
// there plus the component - is delivered exactly when its existence is known (it came out of a directory listing) or a
// look at the file system (following symbolic links) finds it; otherwise nothing is delivered; with components left the walk
// goes on below `path/` for exactly the rest of the field; afterwards the path being built is what it was, so the siblings
// of this component start from the same place.
//
// Hand-written model text (ASSUMED): String::len / push / truncate / clone over an uninterpreted byte length; the closure that appends the component is a value with a `call` method that appends
// exactly what it stands for; file_exists (fstatat) and search_dir (unit globdir; it leaves the path being built as it was -
// the induction hypothesis of this very unit) are opaque calls recorded in a ghost log.
// ---------------------------------------------------------------------------
pub struct Location { pub verif_opaque: u8 }
impl Clone for Location { #[verifier::external_body] fn clone(&self) -> (r: Location) ensures r == *self { unimplemented!() } }
pub struct AttrChar { pub verif_c: int }
pub struct Field { pub value: String, pub origin: Location }
pub struct Interrupted { pub verif_opaque: u8 }
pub enum Ev { Stat { path: Seq<char>, found: bool }, Search { prefix: Seq<char>, suffix: Seq<AttrChar> } }
pub struct Env<S> { pub log: Ghost<Seq<Ev>>, pub system: S }
pub struct SearchEnv<'e, S> { pub env: &'e mut Env<S>, pub interruptible: bool, pub prefix: String, pub origin: Location, pub results: Vec<Field> }
/// byte length of a string: uninterpreted
pub uninterp spec fn blen(s: Seq<char>) -> nat;
pub assume_specification[ String::len ](s: &String) -> (r: usize) ensures r == blen(s@);
/// String::truncate at the byte length of a prefix: that prefix (a no-op at or beyond the length)
pub assume_specification[ String::truncate ](s: &mut String, n: usize)
    ensures forall|p: Seq<char>| #[trigger] p.is_prefix_of(old(s)@) && blen(p) == n ==> final(s)@ == p;
#[verifier::external_body]
pub fn verif_clone_string(s: &String) -> (r: String) ensures r@ == s@ { s.clone() }
/// the closure handed to push_component: it appends the component it stands for
pub trait Pusher: Sized {
    spec fn what(&self) -> Seq<char>;
    fn call(self, prefix: &mut String) ensures final(prefix)@ == old(prefix)@ + self.what();
}
impl<'e, S> SearchEnv<'e, S> {
    /// glob.rs file_exists: fstatat on the path being built, following symbolic links
    #[verifier::external_body]
    pub fn file_exists(&mut self) -> (r: bool)
        ensures mut_ref_future(final(self).env) == mut_ref_future(old(self).env), final(self).env.log@ == old(self).env.log@.push(Ev::Stat { path: old(self).prefix@, found: r }),
            final(self).prefix == old(self).prefix, final(self).results == old(self).results, final(self).origin == old(self).origin
    { unimplemented!() }
    /// glob.rs search_dir (unit globdir): the walk below the path being built; it may deliver results; the path is left as it was
    #[verifier::external_body]
    pub fn search_dir(&mut self, suffix: &[AttrChar]) -> (r: std::ops::ControlFlow<Interrupted>)
        ensures mut_ref_future(final(self).env) == mut_ref_future(old(self).env), final(self).env.log@.len() > old(self).env.log@.len(),
            final(self).env.log@.subrange(0, old(self).env.log@.len() as int) =~= old(self).env.log@,
            final(self).env.log@[old(self).env.log@.len() as int] == (Ev::Search { prefix: old(self).prefix@, suffix: suffix@ }),
            final(self).prefix@ == old(self).prefix@, final(self).origin == old(self).origin
    { unimplemented!() }
}
