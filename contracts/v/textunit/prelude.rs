// ---------------------------------------------------------------------------
// Prelude of unit textunit (property C01, kernel): yash-semantics/src/expansion/initial/text.rs, `impl Expand for TextUnit` /
// `for Text`: what each unit of a text expands to.
// C01 "quotes and backslashes protect what they enclose": a literal character is itself, unquoted, of literal origin (so it is
// never split and is subject to globbing); a backslashed character is a QUOTING backslash followed by the character marked
// QUOTED (the backslash disappears in quote removal, the character is protected from splitting and globbing); a parameter,
// command substitution (both spellings) or arithmetic expansion is handed to its expander exactly once, and that result is
// the result.
//
// Hand-written model text (ASSUMED): the four expanders (ParamRef::expand: unit paramexp; command_subst::expand: unit cmdsubst;
// arith::expand) are opaque calls appending to an event log; `Box::pin(..)` around recursive futures is dropped with the await.
// ---------------------------------------------------------------------------
pub trait Runtime {}
#[derive(Clone)]
pub struct Location { pub verif_id: int }
pub struct Param { pub verif_id: int }
pub struct BracedParam { pub verif_id: int }
pub struct Text { pub verif_id: int }
pub struct Content { pub verif_id: int }
impl Clone for Content { #[verifier::external_body] fn clone(&self) -> (r: Content) ensures r == *self { unimplemented!() } }
pub struct BackquoteContent { pub verif_id: int }
impl BackquoteContent {
    /// Unquote::unquote of the backquote units: the command text with the backslash escapes of backquotes removed
    #[verifier::external_body]
    pub fn unquote(&self) -> (r: (Content, bool)) ensures r.0.verif_id == self.verif_id { unimplemented!() }
}
pub enum TextUnit {
    Literal(char), Backslashed(char), RawParam { param: Param, location: Location }, BracedParam(BracedParam),
    CommandSubst { content: Content, location: Location }, Backquote { content: BackquoteContent, location: Location }, Arith { content: Text, location: Location },
}
pub use TextUnit::*;
pub struct Error { pub verif_opaque: u8 }
pub enum Ev { Param { id: int, braced: bool }, CommandSubst { content: int }, Arith { content: int } }
pub struct Env<'a, S> { pub log: Ghost<Seq<Ev>>, pub verif_result: Ghost<int>, pub verif_a: core::marker::PhantomData<&'a S> }
pub trait Expand<S> { fn expand(&self, env: &mut Env<'_, S>) -> Result<Phrase, Error>; }
pub mod yash_syntax { pub mod syntax { pub enum Modifier { None, Other(u8) } } }
pub struct ParamRef<'a> { pub param: &'a Param, pub modifier: &'a yash_syntax::syntax::Modifier, pub location: &'a Location, pub verif_braced: Ghost<Option<int>> }
impl<'a> ParamRef<'a> {
    #[verifier::external_body]
    pub fn from(bp: &'a BracedParam) -> (r: ParamRef<'a>) ensures r.verif_braced@ == Some(bp.verif_id) { unimplemented!() }
}
/// what an opaque expander hands back is identified by the log position (an uninterpreted function of the event)
pub uninterp spec fn result_of(e: Ev, n: int) -> Result<Phrase, Error>;
impl<'a> ParamRef<'a> {
    #[verifier::external_body]
    pub fn expand<S>(&self, env: &mut Env<'_, S>) -> (r: Result<Phrase, Error>)
        ensures ({ let e = Ev::Param { id: match self.verif_braced@ { Some(b) => b, None => self.param.verif_id }, braced: self.verif_braced@ is Some }; final(env).log@ == old(env).log@.push(e) && r == result_of(e, old(env).log@.len() as int) })
    { unimplemented!() }
}
pub mod command_subst {
    use super::*;
    #[verifier::external_body]
    pub fn expand<S>(command: Content, location: Location, env: &mut Env<'_, S>) -> (r: Result<Phrase, Error>)
        ensures ({ let e = Ev::CommandSubst { content: command.verif_id }; final(env).log@ == old(env).log@.push(e) && r == result_of(e, old(env).log@.len() as int) })
    { unimplemented!() }
}
pub mod arith {
    use super::*;
    #[verifier::external_body]
    pub fn expand<S>(content: &Text, location: &Location, env: &mut Env<'_, S>) -> (r: Result<Phrase, Error>)
        ensures ({ let e = Ev::Arith { content: content.verif_id }; final(env).log@ == old(env).log@.push(e) && r == result_of(e, old(env).log@.len() as int) })
    { unimplemented!() }
}
