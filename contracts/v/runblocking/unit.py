# Unit runblocking: run_blocking, the mask around tcsetpgrp (kernel of C08 / C11).
TC = 'yash-env/src/job/tcsetpgrp.rs'
MOD_HEAD = '''    use vstd::prelude::*;
'''
IMPL = 'impl<S> RunBlocking for S'
WRAP = 'impl<S: Sigmask> VerifSys<S>'
M0 = 'old(self).inner.mask()'
M1 = 'final(self).inner.mask()'
UNIT = {
    'name': 'runblocking',
    'property': 'C08',
    'rlimit': 40,
    'verus_args': ['--edition=2024'],
    'vacuity_floor': 1,
    'controls': {TC + '::<S> RunBlocking for S::run_blocking': {'ensures': {'append': 'false'}}},
    'control_expect': ['run_blocking'],
    'items': [
        ('@raw', 'pub mod rb {\n' + MOD_HEAD),
        ('@file', 'prelude.rs'),
        (TC, [IMPL, 'fn run_blocking'], {'ret': 'r', 'rewrites': ['strip-async'], 'wrapper': WRAP, 'mut_params': ['self'],
            'sig_token_rewrites': [('F : AsyncFnOnce ( ) -> Result < T > ,', 'F: Task<S, T>,')],
            'token_rewrites': [('f ( ) . await', 'f.call(self, Ghost(self.inner.mask()))')],
            'ghost_before': [('let main_result =', 'proof { assert(self.inner.mask() == old(self).inner.mask().union(Set::<int>::empty().insert(signal.0 as int))); }')],
            'ensures': [
                # the mask is afterwards what it was, on success and also when only the function failed ...
                'r is Ok ==> ' + M1 + ' == ' + M0,
                # ... and whenever it differs, it is because the restoration itself failed: then exactly the one signal is still added
                M1 + ' == ' + M0 + ' || ' + M1 + ' == ' + M0 + '.union(Set::<int>::empty().insert(signal.0 as int))',
                # the function runs at most once; whenever it ran - however it ended - the restoration of exactly the old mask was attempted
                # afterwards; when it did not run nothing changed
                'final(self).ran@ <= old(self).ran@ + 1', 'final(self).ran@ == old(self).ran@ + 1 ==> final(self).sets@ == old(self).sets@.push(' + M0 + ')',
                'final(self).ran@ == old(self).ran@ ==> r is Err && ' + M1 + ' == ' + M0 + ' && final(self).sets == old(self).sets',
            ]}),
        ('@raw', '}\n'),
    ],
}
