//! Kani side of property C03 (injected as a child module of yash-arith/src/eval.rs).
//!
//! * `c03q_binres_*`: `binary_result` against an i128 reference for every operator that is not
//!   multiplicative.  Loop-free over the FULL domain i64 x i64: a complete proof, and the sibling
//!   that gives the Verus contract of `binary_result` a concrete counterexample when it fails.
//!   (`* / %` stay with Verus only: 64-bit multiplication against a wide reference does not
//!   terminate in CBMC, measured.)
//! * `c03q_token_*`: the tokenizer never panics and always makes progress (bounded: <= 3 bytes of
//!   arbitrary UTF-8, which includes non-ASCII alphanumerics and white space).
//! * `c03q_const_agree_*`: a variable whose value is an integer constant denotes that constant:
//!   `expand_variable` on a variable holding `s` = the value the tokenizer gives `s` (bounded).
#![allow(dead_code, unused_imports)]
use super::*;
use crate::ast::BinaryOperator::{self, *};
use crate::token::{Term, TokenError, TokenValue, Tokens, Value};
use std::ops::Range;

type R = Result<Value, Error<(), ()>>;

fn reference(op: BinaryOperator, l: i64, r: i64) -> Option<i128> {
    let (lw, rw) = (l as i128, r as i128);
    match op {
        LogicalOr => Some((l != 0 || r != 0) as i128),
        LogicalAnd => Some((l != 0 && r != 0) as i128),
        BitwiseOr | BitwiseOrAssign => Some((l | r) as i128),
        BitwiseXor | BitwiseXorAssign => Some((l ^ r) as i128),
        BitwiseAnd | BitwiseAndAssign => Some((l & r) as i128),
        EqualTo => Some((l == r) as i128),
        NotEqualTo => Some((l != r) as i128),
        LessThan => Some((l < r) as i128),
        GreaterThan => Some((l > r) as i128),
        LessThanOrEqualTo => Some((l <= r) as i128),
        GreaterThanOrEqualTo => Some((l >= r) as i128),
        // C 6.5.7: undefined for a negative or too large count, and for a negative left operand of <<
        ShiftLeft | ShiftLeftAssign => if l < 0 || r < 0 || r >= 64 { None } else { Some(lw << (r as u32)) },
        // arithmetic shift = floor division by 2^r
        ShiftRight | ShiftRightAssign => if r < 0 || r >= 64 { None } else { Some(lw >> (r as u32)) },
        Add | AddAssign => Some(lw + rw),
        Subtract | SubtractAssign => Some(lw - rw),
        Assign => Some(rw),
        Multiply | MultiplyAssign | Divide | DivideAssign | Remainder | RemainderAssign => unreachable!(),
    }
}

fn check_binres(op: BinaryOperator) {
    let l: i64 = kani::any();
    let r: i64 = kani::any();
    let loc: Range<usize> = 0..1;
    let res: R = binary_result(Value::Integer(l), Value::Integer(r), op, &loc);
    match reference(op, l, r) {
        Some(v) if v >= i64::MIN as i128 && v <= i64::MAX as i128 => {
            assert!(res == Ok(Value::Integer(v as i64)), "binary_result: exact value when it is representable");
        }
        _ => assert!(res.is_err(), "binary_result: an error when the exact value is undefined or unrepresentable"),
    }
    std::mem::forget(res);
}

macro_rules! binres {
    ($($name:ident: $($op:ident),+;)*) => { $(
        #[kani::proof]
        fn $name() {
            let k: u8 = kani::any();
            let ops = [$($op),+];
            kani::assume((k as usize) < ops.len());
            check_binres(ops[k as usize]);
        }
    )* };
}

binres! {
    c03q_binres_additive: Add, AddAssign, Subtract, SubtractAssign, Assign;
    c03q_binres_shift_left: ShiftLeft, ShiftLeftAssign;
    c03q_binres_shift_right: ShiftRight, ShiftRightAssign;
    c03q_binres_bitwise: BitwiseOr, BitwiseOrAssign, BitwiseXor, BitwiseXorAssign, BitwiseAnd, BitwiseAndAssign;
    c03q_binres_compare: EqualTo, NotEqualTo, LessThan, GreaterThan, LessThanOrEqualTo, GreaterThanOrEqualTo, LogicalOr, LogicalAnd;
}

/// Must FAIL: claims that << never reports an error.
#[kani::proof]
fn c03x_control_shl_never_errs() {
    let l: i64 = kani::any();
    let r: i64 = kani::any();
    let loc: Range<usize> = 0..1;
    let res: R = binary_result(Value::Integer(l), Value::Integer(r), ShiftLeft, &loc);
    assert!(res.is_ok(), "CONTROL (expected to fail): << never reports an error");
    std::mem::forget(res);
}

// ---------------------------------------------------------------- tokenizer
fn any_str<'a>(buf: &'a mut [u8; 3]) -> Option<&'a str> {
    *buf = kani::any();
    let len: usize = kani::any();
    kani::assume(len <= 3);
    std::str::from_utf8(&buf[..len]).ok()
}

#[cfg(any())] // measured: > 10 min and an unwinding bound of 40+ is needed (operator table search); not run
#[kani::proof]
#[kani::unwind(6)]
fn c03t_token_no_panic_len3() {
    let mut buf = [0u8; 3];
    if let Some(s) = any_str(&mut buf) {
        let mut tokens = Tokens::new(s);
        let mut last_end = 0;
        let mut n = 0;
        while n < 4 {
            match tokens.next_token() {
                Ok(token) => {
                    assert!(token.location.start <= token.location.end && token.location.end <= s.len(), "token location inside the text");
                    assert!(token.location.start >= last_end, "tokens do not overlap");
                    if token.value == TokenValue::EndOfInput {
                        break;
                    }
                    assert!(token.location.end > token.location.start, "a token consumes at least one byte (progress)");
                    last_end = token.location.end;
                    std::mem::forget(token);
                }
                Err(e) => {
                    assert!(e.location.start <= s.len(), "error location inside the text");
                    std::mem::forget(e);
                    break;
                }
            }
            n += 1;
        }
    }
}

// ---------------------------------------------------------------- tokenizer on concrete texts
// The tokenizer with a symbolic text is out of CBMC's reach (see above).  On a CONCRETE text CBMC only has to follow
// one path, which makes a bounded stand-in possible: the real `Tokens::next_token` is run over each text of a fixed
// list (ASCII and non-ASCII letters and digits, every operator length, blanks of several widths, invalid characters)
// and compared, token by token, with a reference written over characters, not bytes: leading white space is skipped;
// the longest operator of the C grammar is one token; otherwise a maximal run of alphanumeric characters and `_` is a
// term (a constant if it starts with an ASCII digit, a variable name otherwise); anything else is an invalid character.
// Every location must lie on character boundaries (no panic on slicing).  Labelled bounded (the listed texts).
const REF_OPS3: [&str; 2] = ["<<=", ">>="];
const REF_OPS2: [&str; 19] = ["|=", "||", "^=", "&=", "&&", "==", "!=", "<=", "<<", ">=", ">>", "+=", "++", "-=", "--", "*=", "/=", "%=", "::"];
const REF_OPS1: &str = "?:|^&=<>+-*/%~!()";

fn ref_op_len(s: &str) -> usize {
    let b = s.as_bytes();
    let mut k = 0;
    while k < REF_OPS3.len() {
        let o = REF_OPS3[k].as_bytes();
        if b.len() >= 3 && b[0] == o[0] && b[1] == o[1] && b[2] == o[2] {
            return 3;
        }
        k += 1;
    }
    let mut k = 0;
    while k < REF_OPS2.len() - 1 {
        let o = REF_OPS2[k].as_bytes();
        if b.len() >= 2 && b[0] == o[0] && b[1] == o[1] {
            return 2;
        }
        k += 1;
    }
    if !b.is_empty() {
        let mut k = 0;
        let o = REF_OPS1.as_bytes();
        while k < o.len() {
            if b[0] == o[k] {
                return 1;
            }
            k += 1;
        }
    }
    0
}

fn check_tokens(src: &str) {
    let mut tokens = Tokens::new(src);
    let mut pos = 0usize;
    let mut rounds = 0;
    while rounds < 6 {
        rounds += 1;
        // reference: skip white space, character by character
        let mut start = pos;
        for c in src[pos..].chars() {
            if c.is_whitespace() {
                start += c.len_utf8();
            } else {
                break;
            }
        }
        let rest = &src[start..];
        let got = tokens.next_token();
        if rest.is_empty() {
            match got {
                Ok(t) => assert!(t.value == TokenValue::EndOfInput && t.location == (start..start), "end of input after trailing white space"),
                Err(_) => assert!(false, "end of input is not an error"),
            }
            return;
        }
        let oplen = ref_op_len(rest);
        if oplen > 0 {
            match got {
                Ok(t) => {
                    assert!(matches!(t.value, TokenValue::Operator(_)), "an operator character starts an operator token");
                    assert!(t.location == (start..start + oplen), "the longest operator is one token");
                }
                Err(_) => assert!(false, "an operator is not an error"),
            }
            pos = start + oplen;
            continue;
        }
        let mut end = start;
        for c in rest.chars() {
            if c.is_alphanumeric() || c == '_' {
                end += c.len_utf8();
            } else {
                break;
            }
        }
        if end == start {
            match got {
                Ok(_) => assert!(false, "a character that starts no token is an error"),
                Err(e) => assert!(e.cause == TokenError::InvalidCharacter && e.location.start == start, "invalid character reported where it stands"),
            }
            return;
        }
        let first_is_digit = rest.as_bytes()[0].is_ascii_digit();
        match got {
            Ok(t) => {
                assert!(t.location == (start..end), "a term is the maximal run of alphanumeric characters and _ (counted in bytes of whole characters)");
                match t.value {
                    TokenValue::Term(Term::Variable { name, .. }) => assert!(!first_is_digit && name.len() == end - start, "a term that does not start with a digit is a variable name"),
                    TokenValue::Term(Term::Value(_)) => assert!(first_is_digit, "a constant starts with a digit"),
                    _ => assert!(false, "a term token"),
                }
            }
            Err(e) => {
                assert!(first_is_digit && e.cause == TokenError::InvalidNumericConstant && e.location == (start..end), "only a malformed constant is an error, reported over the whole term");
                return;
            }
        }
        pos = end;
    }
}

macro_rules! tok_case {
    ($name:ident, $text:expr) => {
        tok_case!($name, $text, 40);
    };
    ($name:ident, $text:expr, $unwind:expr) => {
        #[kani::proof]
        #[kani::unwind($unwind)]
        fn $name() {
            check_tokens($text);
        }
    };
}
tok_case!(c03q_tok_empty, "");
tok_case!(c03q_tok_blank, " \t");
tok_case!(c03q_tok_ascii_term, " ab1 ");
tok_case!(c03q_tok_non_ascii_name, "\u{e9}");
tok_case!(c03q_tok_cjk_name, "\u{5909}\u{6570}+1");
tok_case!(c03q_tok_digit_then_non_ascii, "1\u{663}", 100);
tok_case!(c03q_tok_mixed, "x+\u{e9}_9");
tok_case!(c03q_tok_shift_assign, "a<<=b");
tok_case!(c03q_tok_shift, "a>>b");
tok_case!(c03q_tok_plus3, "+++");
tok_case!(c03q_tok_cond, "a?b:c");
tok_case!(c03q_tok_fullwidth_digit, "\u{ff10}1");
tok_case!(c03q_tok_wide_blank, "\u{3000}a\u{a0}");
tok_case!(c03q_tok_invalid, "a $");
tok_case!(c03q_tok_invalid_after_non_ascii, "\u{e9}#");
tok_case!(c03q_tok_hex, "0x1F 08");

// ---------------------------------------------------------------- constants in variables
/// One-variable environment.
struct OneVar<'a>(&'a str);

impl crate::env::Env for OneVar<'_> {
    type GetVariableError = ();
    type AssignVariableError = ();
    fn get_variable(&self, _name: &str) -> Result<Option<&str>, ()> {
        Ok(Some(self.0))
    }
    fn assign_variable(&mut self, _name: &str, _value: String, _location: Range<usize>) -> Result<(), ()> {
        Ok(())
    }
}

/// "A variable whose value is an integer constant denotes that constant, so `$((x))` and `$(($x))`
/// agree".  The tokenizer gives a constant token `s` the value `parse_integer_constant(s)` (one call in
/// `Tokens::next_token`; the tokenizer itself is too expensive for CBMC: 37-way operator search and
/// Unicode trimming, measured > 10 min per harness), so agreement is checked as: a variable holding a
/// text `s` that has the form of a constant evaluates exactly as `parse_integer_constant(s)` does --
/// same value, or an error when that is an error.  `s` ranges over all texts of the given length that
/// start with a digit, over the alphabet below (digits that matter for the radix rules, hex letters,
/// both prefixes, `_`).
fn check_const_agree<const N: usize>() {
    const ALPHABET: [u8; 10] = *b"01789afxX_";
    let mut buf = [0u8; N];
    let mut i = 0;
    while i < N {
        let k: usize = kani::any();
        kani::assume(k < ALPHABET.len());
        buf[i] = ALPHABET[k];
        i += 1;
    }
    kani::assume(buf[0].is_ascii_digit());
    let s = std::str::from_utf8(&buf).unwrap();
    let expected = crate::token::parse_integer_constant(s);
    let env = OneVar(s);
    let loc: Range<usize> = 0..1;
    let r = expand_variable("x", &loc, &env);
    match expected {
        Ok(v) => assert!(r == Ok(Value::Integer(v)), "a variable holding an integer constant denotes that constant"),
        Err(_) => assert!(r.is_err(), "a variable holding a malformed constant is an error, as the constant itself is"),
    }
    std::mem::forget(r);
}

#[kani::proof]
#[kani::unwind(8)]
fn c03q_const_agree_len1() { check_const_agree::<1>(); }

#[kani::proof]
#[kani::unwind(8)]
fn c03q_const_agree_len2() { check_const_agree::<2>(); }

#[kani::proof]
#[kani::unwind(8)]
fn c03t_const_agree_len3() { check_const_agree::<3>(); }

/// "No expression text, however malformed, makes the shell panic" -- for the constant parser: a token
/// starts with an ASCII digit and continues with arbitrary alphanumerics, which may be multi-byte.
/// Every UTF-8 text of <= 3 bytes that starts with a digit is tried.
#[kani::proof]
#[kani::unwind(8)]
fn c03q_const_parse_no_panic() {
    let buf: [u8; 3] = kani::any();
    let len: usize = kani::any();
    kani::assume(len >= 1 && len <= 3);
    kani::assume(buf[0].is_ascii_digit());
    if let Ok(s) = std::str::from_utf8(&buf[..len]) {
        let r = crate::token::parse_integer_constant(s);
        std::mem::forget(r);
    }
}

// native replay of a Kani counterexample (bin/vcheck replay): the generated test is included here
#[cfg(verif_playback)]
include!("/verif/work/k/playback/arith_harness.rs");
