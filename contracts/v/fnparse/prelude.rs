// Prelude of unit fnparse: the range former of the bracket-expression parser (property C04).

/// XBD 9.3.5: `a-z` inside a bracket expression denotes a range when both end points are single
/// members; `make_range` is called after every member is pushed and folds `start`, `-`, `end`.
pub open spec fn is_member(i: BracketItem) -> bool { i is Atom }
pub open spec fn is_hyphen(i: BracketItem) -> bool { i == BracketItem::Atom(BracketAtom::Char('-')) }

pub open spec fn folds(s: Seq<BracketItem>) -> bool {
    s.len() >= 3 && is_member(s[s.len() - 1]) && is_hyphen(s[s.len() - 2]) && is_member(s[s.len() - 3])
}
