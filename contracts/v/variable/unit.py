# Unit variable: per-variable attribute operations of yash-env (part of property C16).
MAIN = 'yash-env/src/variable/main.rs'
MOD_HEAD = '''    use vstd::prelude::*;
'''
UNIT = {
    'name': 'variable',
    'property': 'C16',
    'rlimit': 60,
    'verus_args': ['--edition=2024'],
    'items': [
        ('@raw', 'pub mod va {\n' + MOD_HEAD),
        ('yash-env/src/variable/value.rs', ['enum Value']),
        ('yash-env/src/variable/quirk.rs', ['enum Quirk']),
        ('@file', 'prelude.rs'),
        (MAIN, ['struct Variable']),
        (MAIN, ['impl Variable', 'fn is_read_only'], {'ret': 'b', 'ensures': ['b == self.read_only_location is Some']}),
        (MAIN, ['struct VariableRefMut'], {'drop_derives': True}),
        (MAIN, ['struct AssignError']),
        (MAIN, ["impl VariableRefMut<'_>", 'fn assign_impl'], {'ret': 'r', 'ensures': [
            # a read-only variable is never modified
            'old(self).0.read_only_location is Some ==> r is Err && *final(self).0 == *old(self).0',
            'old(self).0.read_only_location is Some ==> r->Err_0.new_value == value && r->Err_0.assigned_location == location && Some(r->Err_0.read_only_location) == old(self).0.read_only_location',
            # otherwise the value and the assignment location are replaced, the old ones returned, nothing else touched
            'old(self).0.read_only_location is None ==> r == Ok::<(Option<Value>, Option<Location>), AssignError>((old(self).0.value, old(self).0.last_assigned_location))',
            'old(self).0.read_only_location is None ==> final(self).0.value == Some(value) && final(self).0.last_assigned_location == location && attrs_same(*old(self).0, *final(self).0)',
        ]}),
        (MAIN, ["impl VariableRefMut<'_>", 'fn export'], {'ensures': [
            'final(self).0.is_exported == is_exported',
            'final(self).0.value == old(self).0.value && final(self).0.read_only_location == old(self).0.read_only_location && final(self).0.last_assigned_location == old(self).0.last_assigned_location && final(self).0.quirk == old(self).0.quirk',
        ]}),
        (MAIN, ["impl VariableRefMut<'_>", 'fn make_read_only'], {'ensures': [
            # once read-only, always read-only, with the first location kept
            'old(self).0.read_only_location is Some ==> *final(self).0 == *old(self).0',
            'old(self).0.read_only_location is None ==> final(self).0.read_only_location == Some(location)',
            'final(self).0.value == old(self).0.value && final(self).0.is_exported == old(self).0.is_exported && final(self).0.last_assigned_location == old(self).0.last_assigned_location && final(self).0.quirk == old(self).0.quirk',
        ]}),
        ('@raw', '}\n'),
    ],
}
