# Unit casecmd: the case command (kernel of property C02).
CS = 'yash-semantics/src/command/compound_command/case.rs'
SEM = 'yash-env/src/semantics.rs'
SYN = 'yash-syntax/src/syntax.rs'
MOD_HEAD = '''    use vstd::prelude::*;
    use std::ops::ControlFlow::{self, Continue};
    use std::ffi::c_int;
'''
M0 = 'old(env).mon@'
M1 = 'final(env).mon@'
UNIT = {
    'name': 'casecmd',
    'property': 'C02',
    'rlimit': 80,
    'verus_args': ['--edition=2024'],
    'controls': 'auto',
    'vacuity_floor': 1,
    'items': [
        ('@raw', 'pub mod semantics { pub type Result<T = ()> = std::ops::ControlFlow<crate::cs::Divert, T>; }\n'),
        ('@raw', 'pub mod cs {\n' + MOD_HEAD + '    pub use crate::semantics::Result;\n'),
        (SEM, ['struct ExitStatus']),
        (SEM, ['impl ExitStatus#1', 'const SUCCESS']),
        (SEM, ['enum Divert']),
        (SYN, ['enum CaseContinuation'], {}),
        ('@file', 'prelude.rs'),
        (CS, ['fn execute'], {'ret': 'r', 'rewrites': ['strip-async', 'bool-or-assign'],
            'attrs': ['#[verifier::loop_isolation(false)]', '#[verifier::allow_complex_invariants]', '#[verifier::exec_allows_no_decreases_clause]'],
            'entry_ghost': 'let ghost verif_m0 = env.mon@;',
            'token_rewrites': [
                # `for item in slice` = a while loop over the index (Verus has no `continue` in for loops); the index is advanced
                # first thing in the body, so `continue` goes to the next item as before
                ('for item in items', 'let mut verif_i: usize = 0; while verif_i < items.len()'),
                # the two opaque calls get the item itself instead of one of its fields (so that the monitor knows which item)
                ('matches ( env , & subject . value , & item . patterns )', 'matches(env, &subject.value, item)'),
                ('item . body . execute ( env )', 'verif_run_body(item, env)'),
                ('use yash_syntax :: syntax :: CaseContinuation :: * ;', 'use crate::cs::CaseContinuation::*;'),
            ],
            'requires': ['items_wf(items@)', M0 + '.last is Start', '!' + M0 + '.wrong'],
            'ensures': [
                # every test and every run happened in turn: items tested in order from the first, a body runs only right after
                # its patterns matched or right after the body before it ran and said `;&`, no test after `;&`, nothing after `;;`,
                # nothing after a divert
                '!' + M1 + '.wrong',
                M1 + '.handled <= ' + M0 + '.handled + 1', M1 + '.runs >= ' + M0 + '.runs',
                # an expansion error (subject or patterns): reported once, its answer handed on
                M1 + '.handled == ' + M0 + '.handled + 1 ==> ' + M1 + '.last_handled == Some(r) && (' + M1 + '.last is Start || ' + M1 + '.last is Failed)',
                # a divert out of a body is handed on unchanged
                M1 + '.handled == ' + M0 + '.handled && r is Break ==> (' + M1 + '.last matches Last::Ran { idx, cont, result } && result == r)',
                # otherwise the command went on until nothing was left to do
                M1 + '.handled == ' + M0 + '.handled && r is Continue ==> finished(' + M1 + '.last, items@.len() as int)',
                # XCU 2.9.4.3 exit status: zero if nothing ran, otherwise that of the last body executed (zero for an empty one)
                M1 + '.handled == ' + M0 + '.handled && r is Continue ==> final(env).exit_status == (if ' + M1 + '.runs > ' + M0 + '.runs && !' + M1 + '.last_empty { ' + M1 + '.last_status } else { ExitStatus(0) })',
            ],
            'loops': {0: {
                'body_start': 'let item = &items[verif_i]; verif_i = verif_i + 1;',
                'invariant': [
                    'verif_i <= items@.len()', 'items_wf(items@)',
                    '!env.mon@.wrong', 'env.mon@.handled == verif_m0.handled', 'env.mon@.runs >= verif_m0.runs',
                    'state_ok(env.mon@.last, falling_through, verif_i as int)',
                    'exit_status_updated == (env.mon@.runs > verif_m0.runs && !env.mon@.last_empty)',
                    'env.mon@.runs > verif_m0.runs ==> env.exit_status == env.mon@.last_status',
                ],
                'ensures': [
                    '!env.mon@.wrong', 'env.mon@.handled == verif_m0.handled', 'env.mon@.runs >= verif_m0.runs',
                    'finished(env.mon@.last, items@.len() as int)',
                    'exit_status_updated == (env.mon@.runs > verif_m0.runs && !env.mon@.last_empty)',
                    'env.mon@.runs > verif_m0.runs ==> env.exit_status == env.mon@.last_status',
                ]}},
            }),
        ('@raw', '}\n'),
    ],
}
