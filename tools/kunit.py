"""Kani pipeline: scratch copy of /repo's working tree, add-only injection of contract
modules, listed substitutions, cargo kani, verdict parsing, concrete playback."""
import hashlib
import importlib.util
import json
import os
import re
import shutil
import subprocess
import sys
import time

VERIF = os.path.dirname(os.path.dirname(os.path.abspath(__file__)))
REPO = os.environ.get('VERIF_REPO', '/repo')
KWORK = os.path.join(os.environ.get('VERIF_WORK') or os.path.join(VERIF, 'work'), 'k')
WS = os.path.join(KWORK, 'ws')
KDIR = os.path.join(VERIF, 'contracts', 'k')

# ---- the only rewrites of real lines (exact-match; each listed in DESIGN.md 1.1-3) ----------
SUBST = [
    ('yash-env/src/job.rs', 'use std::collections::HashMap;\n',
     '#[cfg(not(verif_map))]\nuse std::collections::HashMap;\n#[cfg(verif_map)]\nuse crate::verif_map::HashMap;\n'),
    ('yash-env/src/job.rs', '        use std::collections::hash_map::Entry::*;\n',
     '        #[cfg(not(verif_map))]\n        use std::collections::hash_map::Entry::*;\n        #[cfg(verif_map)]\n        use crate::verif_map::Entry::*;\n'),
    ('yash-env/src/variable.rs', 'use std::collections::HashMap;\n',
     '#[cfg(not(verif_map))]\nuse std::collections::HashMap;\n#[cfg(verif_map)]\nuse crate::verif_map::HashMap;\n'),
    ('yash-env/src/variable.rs', 'use std::collections::hash_map::Entry::{Occupied, Vacant};\n',
     '#[cfg(not(verif_map))]\nuse std::collections::hash_map::Entry::{Occupied, Vacant};\n#[cfg(verif_map)]\nuse crate::verif_map::Entry::{Occupied, Vacant};\n'),
    ('yash-env/src/variable.rs', '    inner: std::collections::hash_map::Iter<\'a, String, Vec<VariableInContext>>,\n',
     '    #[cfg(not(verif_map))]\n    inner: std::collections::hash_map::Iter<\'a, String, Vec<VariableInContext>>,\n    #[cfg(verif_map)]\n    inner: crate::verif_map::Iter<\'a, String, Vec<VariableInContext>>,\n'),
    ('yash-env/src/trap.rs', 'use std::collections::BTreeMap;\n',
     '#[cfg(not(verif_map))]\nuse std::collections::BTreeMap;\n#[cfg(verif_map)]\nuse crate::verif_map::BTreeMap;\n'),
    ('yash-env/src/trap.rs', 'use std::collections::btree_map::Entry;\n',
     '#[cfg(not(verif_map))]\nuse std::collections::btree_map::Entry;\n#[cfg(verif_map)]\nuse crate::verif_map::Entry;\n'),
    ('yash-env/src/trap.rs', '    inner: std::collections::btree_map::Iter<\'a, Condition, GrandState>,\n',
     '    #[cfg(not(verif_map))]\n    inner: std::collections::btree_map::Iter<\'a, Condition, GrandState>,\n    #[cfg(verif_map)]\n    inner: crate::verif_map::Iter<\'a, Condition, GrandState>,\n'),
    ('yash-env/src/trap/state.rs', 'use std::collections::btree_map::{Entry, VacantEntry};\n',
     '#[cfg(not(verif_map))]\nuse std::collections::btree_map::{Entry, VacantEntry};\n#[cfg(verif_map)]\nuse crate::verif_map::{Entry, VacantEntry};\n'),
]
# files appended to crate roots (add-only)
ROOT_APPEND = {
    'yash-env/src/lib.rs': '\n#[cfg(verif_map)]\n#[path = "%s/common/verif_map.rs"]\npub mod verif_map;\n' % KDIR,
}


def all_units():
    out = []
    for d in sorted(os.listdir(KDIR)):
        if os.path.exists(os.path.join(KDIR, d, 'unit.py')):
            out.append(d)
    return out


def load_unit(name):
    d = os.path.join(KDIR, name)
    spec = importlib.util.spec_from_file_location('kunit_' + name, os.path.join(d, 'unit.py'))
    mod = importlib.util.module_from_spec(spec)
    spec.loader.exec_module(mod)
    u = mod.UNIT
    u['_dir'] = d
    return u


def prepare_ws():
    """Mirror /repo's working tree into WS with the stable transformations applied.
    Files are rewritten only when their desired content changed, so cargo's cache stays valid.
    Returns (problems, report)."""
    problems = []
    report = {'substitutions': [], 'injections': []}
    units = [load_unit(n) for n in all_units()]
    appends = {}
    for k, v in ROOT_APPEND.items():
        appends.setdefault(k, []).append(v)
    for u in units:
        for (rel, modfile) in u.get('inject', []):
            line = '\n#[cfg(all(kani, verif_unit_%s))]\n#[path = "%s"]\nmod verif_%s_%s;\n' % (
                u['name'], os.path.join(u['_dir'], modfile), u['name'], re.sub(r'\W', '_', os.path.splitext(modfile)[0]))
            appends.setdefault(rel, []).append(line)
            report['injections'].append({'file': rel, 'module': os.path.join(u['_dir'], modfile), 'unit': u['name']})
    subst = {}
    for (rel, old, new) in SUBST:
        subst.setdefault(rel, []).append((old, new))
    wanted = set()
    for root, dirs, files in os.walk(REPO):
        relroot = os.path.relpath(root, REPO)
        if relroot == '.':
            relroot = ''
        dirs[:] = [d for d in dirs if not (d in ('target', '.git') and relroot == '') and d != '.git']
        for f in files:
            rel = os.path.join(relroot, f) if relroot else f
            src = os.path.join(root, f)
            if os.path.islink(src) or not os.path.isfile(src):
                continue
            wanted.add(rel)
            try:
                data = open(src, 'rb').read()
            except OSError:
                continue
            if rel in subst or rel in appends:
                text = data.decode('utf-8')
                for (old, new) in subst.get(rel, []):
                    c = text.count(old)
                    if c != 1:
                        problems.append('substitution anchor lost in %s: %r occurs %d times' % (rel, old.strip(), c))
                    else:
                        text = text.replace(old, new)
                        report['substitutions'].append({'file': rel, 'line': old.strip()})
                for a in appends.get(rel, []):
                    text += a
                data = text.encode('utf-8')
            dst = os.path.join(WS, rel)
            try:
                cur = open(dst, 'rb').read()
            except OSError:
                cur = None
            if cur != data:
                os.makedirs(os.path.dirname(dst), exist_ok=True)
                with open(dst, 'wb') as fh:
                    fh.write(data)
    for rel in list(subst.keys()) + list(appends.keys()):
        if rel not in wanted:
            problems.append('lost anchor: file %s does not exist in %s' % (rel, REPO))
    # remove stale files
    for root, dirs, files in os.walk(WS):
        relroot = os.path.relpath(root, WS)
        if relroot == '.':
            relroot = ''
        dirs[:] = [d for d in dirs if not (relroot == '' and d in ('target', '.cargo'))]
        for f in files:
            rel = os.path.join(relroot, f) if relroot else f
            if rel not in wanted:
                os.remove(os.path.join(root, f))
    os.makedirs(os.path.join(WS, '.cargo'), exist_ok=True)
    cfg = os.path.join(WS, '.cargo', 'config.toml')
    want = '[net]\noffline = true\n'
    if not os.path.exists(cfg) or open(cfg).read() != want:
        open(cfg, 'w').write(want)
    return problems, report


def check_anchors(unit):
    missing = []
    for (rel, rx) in unit.get('anchors', []):
        p = os.path.join(WS, rel)
        try:
            text = open(p, encoding='utf-8').read()
        except OSError:
            missing.append('%s (file missing)' % rel)
            continue
        if not re.search(rx, text):
            missing.append('%s: /%s/' % (rel, rx))
    return missing


def kani_env(unit):
    env = dict(os.environ)
    env['CARGO_NET_OFFLINE'] = 'true'
    flags = ['--cfg', 'verif_unit_' + unit['name']]
    for c in unit.get('cfg', []):
        flags += ['--cfg', c]
    env['RUSTFLAGS'] = ' '.join(flags + [env.get('RUSTFLAGS', '')]).strip()
    env.pop('CARGO_ENCODED_RUSTFLAGS', None)
    return env


def kani_cmd(unit, patterns, jobs, extra=None):
    cmd = ['cargo', 'kani', '-p', unit['crate'], '-Z', 'function-contracts', '-Z', 'stubbing', '-Z', 'unstable-options',
           '--target-dir', os.path.join(KWORK, 'target', unit['name']),
           '--output-format', 'terse', '-j', str(jobs)]
    if unit.get('harness_timeout'):
        cmd += ['--harness-timeout', str(unit['harness_timeout'])]
    for a in unit.get('kani_args', []):
        cmd.append(a)
    for p in patterns:
        cmd += ['--harness', p]
    if extra:
        cmd += extra
    return cmd


SEG_RE = re.compile(r'^(?:Thread (\d+): ?)?(?:Checking harness ([\w:]+)\.\.\.)?', re.M)


def _segments(out):
    """Yield (harness_full_name, block_text): handles both sequential and `-j` (Thread N:) output."""
    lines = out.split('\n')
    cur = {}          # thread -> harness name
    blocks = {}       # harness -> list of lines
    active = None     # harness receiving lines
    order = []
    for ln in lines:
        m = re.match(r'^(?:Thread (\d+): ?)(.*)$', ln)
        thread = None
        rest = ln
        if m:
            thread = m.group(1)
            rest = m.group(2)
        hm = re.match(r'^Checking harness ([\w:]+)\.\.\.', rest)
        if hm:
            name = hm.group(1)
            cur[thread] = name
            if name not in blocks:
                blocks[name] = []
                order.append(name)
            active = name
            continue
        if m:
            # a result block of that thread starts here
            active = cur.get(thread)
            if rest.strip() and active:
                blocks[active].append(rest)
            continue
        if ln.startswith('Manual Harness Summary') or ln.startswith('Complete - '):
            active = None
            continue
        if active:
            blocks[active].append(ln)
    for name in order:
        yield name, '\n'.join(blocks[name])


def parse_kani(out):
    """Return dict harness -> {'verdict': 'ok'|'failed'|'undecided', 'failed_checks': [...], 'checks': n, 'time': s, 'covers': ...}"""
    res = {}
    for name, blk in _segments(out):
        short = name.split('::')[-1]
        d = {'full_name': name, 'failed_checks': [], 'verdict': 'undecided', 'reason': None}
        m = re.search(r'VERIFICATION:- (SUCCESSFUL|FAILED)', blk)
        if m:
            d['verdict'] = 'ok' if m.group(1) == 'SUCCESSFUL' else 'failed'
        m = re.search(r'\*\* (\d+) of (\d+) failed', blk)
        if m:
            d['checks_failed'] = int(m.group(1))
            d['checks'] = int(m.group(2))
        m = re.search(r'\*\* (\d+) of (\d+) cover properties satisfied', blk)
        if m:
            d['covers_sat'] = int(m.group(1))
            d['covers'] = int(m.group(2))
        m = re.search(r'Verification Time: ([\d.]+)s', blk)
        if m:
            d['time_s'] = float(m.group(1))
        for fm in re.finditer(r'Failed Checks: (.*)\n(?:\s*File: "([^"]*)", line (\d+), in (\S+))?', blk):
            d['failed_checks'].append({'description': fm.group(1).strip(), 'file': fm.group(2), 'line': fm.group(3), 'function': fm.group(4)})
        low = blk.lower()
        if d['verdict'] == 'failed':
            tool = [f for f in d['failed_checks'] if re.search(r'unwinding assertion|not supported|unsupported|unreachable code|recursion unwinding', f['description'], re.I)]
            if tool and len(tool) == len(d['failed_checks']):
                d['verdict'] = 'undecided'
                d['reason'] = 'tool limit: ' + tool[0]['description']
            elif any(re.search(r'unwinding assertion', f['description'], re.I) for f in d['failed_checks']):
                d['verdict'] = 'undecided'
                d['reason'] = 'unwinding assertion failed (bound too small)'
            elif not d['failed_checks']:
                d['verdict'] = 'undecided'
                d['reason'] = 'verification failed without a failed check (timeout / out of memory / CBMC error)'
        if 'timed out' in low or 'out of memory' in low or 'cbmc crashed' in low:
            if d['verdict'] != 'ok':
                d['verdict'] = 'undecided'
                d['reason'] = 'timeout or out of memory'
        res[short] = d
    return res


def run_kani(unit, patterns, jobs=8, timeout=7200, extra=None):
    cmd = kani_cmd(unit, patterns, jobs, extra)
    t0 = time.time()
    try:
        p = subprocess.run(cmd, cwd=WS, env=kani_env(unit), capture_output=True, text=True, timeout=timeout)
        out = p.stdout + '\n' + p.stderr
        rc = p.returncode
    except subprocess.TimeoutExpired as e:
        out = ((e.stdout or b'').decode('utf-8', 'replace') if isinstance(e.stdout, bytes) else (e.stdout or '')) + '\nTIMED OUT'
        rc = -9
    wall = time.time() - t0
    log = os.path.join(KWORK, 'logs')
    os.makedirs(log, exist_ok=True)
    with open(os.path.join(log, '%s-%d.log' % (unit['name'], int(t0))), 'w') as fh:
        fh.write(' '.join(cmd) + '\n' + out)
    return {'cmd': 'cd %s && RUSTFLAGS="%s" %s' % (WS, kani_env(unit)['RUSTFLAGS'], ' '.join(cmd)), 'out': out, 'rc': rc, 'wall_s': wall,
            'harnesses': parse_kani(out)}


def compile_error(out):
    m = re.search(r'^(error(?:\[E\d+\])?: .*(?:\n.*){0,12})', out, re.M)
    if m and 'Verification' not in m.group(1):
        if re.search(r'error: could not compile|error\[E\d+\]|error: aborting', out):
            return m.group(1)[:1500]
    return None


def run_unit(name, pid, tier, ev):
    """Run one K unit for the given tier; fill the evidence accumulator; return failed/undecided."""
    out = {'failed': [], 'undecided': []}
    unit = load_unit(name)
    problems, report = prepare_ws()
    for p in problems:
        out['undecided'].append('unit %s: %s' % (name, p))
    miss = check_anchors(unit)
    for m in miss:
        out['undecided'].append('unit %s: lost anchor %s' % (name, m))
    if out['undecided']:
        return out
    pats = list(unit['harnesses']['quick'])
    if tier == 'thorough':
        pats += list(unit['harnesses'].get('thorough', []))
    jobs = unit.get('jobs', {}).get(tier, 8)
    r = run_kani(unit, pats, jobs=jobs, timeout=unit.get('timeout_s', {}).get(tier, 3600))
    ev['checker_cmds'].append(r['cmd'])
    cerr = compile_error(r['out'])
    hs = r['harnesses']
    uinfo = {'unit': name, 'engine': 'kani 0.68.0 / cbmc 6.11', 'backend': 'cadical (CBMC default SAT back end)',
             'wall_s': round(r['wall_s'], 1), 'harnesses_run': len(hs), 'bound': unit.get('bound'),
             'substitutions': [s for s in report['substitutions'] if s['file'] in [f for f, _ in unit.get('subst_files', [])] or True][:20]}
    if cerr and not hs:
        out['undecided'].append('unit %s: compile error in scratch copy: %s' % (name, cerr.replace('\n', ' | ')[:600]))
        uinfo['status'] = 'undecided'
        ev['units'].append(uinfo)
        return out
    if not hs:
        out['undecided'].append('unit %s: no harness was run (rc=%s): %s' % (name, r['rc'], r['out'][-400:].replace('\n', ' | ')))
        uinfo['status'] = 'undecided'
        ev['units'].append(uinfo)
        return out
    for (rel, rx) in unit.get('anchors', []):
        pass
    for fn in unit.get('functions', []):
        ev['functions_under_contract'].append(dict(fn, engine='kani', unit=name))
    for a in unit.get('assumptions', []):
        ev['assumptions'].add('[%s] %s' % (name, a))
    for a in scan_assumptions(unit):
        ev['assumptions'].add('[%s] %s' % (name, a))
    controls = set()
    expected_min = unit.get('min_harnesses', {}).get(tier, 1)
    normal = 0
    solver = 0.0
    for h, d in sorted(hs.items()):
        solver += d.get('time_s', 0.0)
        is_control = bool(re.search(unit.get('control_re', r'control'), h))
        if is_control:
            ok = d['verdict'] == 'failed'
            ev['negative_controls'].append({'unit': name, 'harness': h, 'refuted': ok})
            if not ok:
                out['undecided'].append('unit %s: negative control %s was not refuted (verdict %s): vacuity guard' % (name, h, d['verdict']))
            continue
        normal += 1
        nchecks = d.get('checks', 0)
        ev['obligations'] += max(nchecks, 1)
        complete = bool(re.search(unit.get('complete_re', r'$^'), h))
        if d['verdict'] == 'ok':
            if nchecks == 0:
                out['undecided'].append('unit %s: harness %s generated zero checks (vacuity guard)' % (name, h))
                continue
            if d.get('covers') is not None and d.get('covers_sat', 0) < d.get('covers', 0):
                out['undecided'].append('unit %s: harness %s: %d of %d cover properties unreachable (vacuity guard)' % (name, h, d['covers'] - d['covers_sat'], d['covers']))
            ev['discharged'] += nchecks
            if complete:
                ev['proved_obligations'] += nchecks
            else:
                ev['bounded_obligations'].append({'harness': h, 'checks': nchecks, 'bound': unit.get('bound')})
            if len(ev['samples']) < 40:
                ev['samples'].append({'obligation': 'kani harness %s::%s' % (name, h), 'checks': nchecks, 'verdict': 'discharged',
                                      'complete': complete, 'time_s': d.get('time_s')})
        elif d['verdict'] == 'failed':
            ev['discharged'] += max(nchecks - d.get('checks_failed', 1), 0)
            for fc in d['failed_checks']:
                key = 'kani:%s:%s:%s' % (name, h, fc['description'])
                out['failed'].append({'key': key, 'unit': name, 'engine': 'kani', 'harness': h,
                                      'diagnostic': json.dumps(fc), 'has_input': False, 'full_name': d['full_name']})
        else:
            out['undecided'].append('unit %s: harness %s undecided: %s' % (name, h, d.get('reason')))
    uinfo['status'] = 'ok' if not out['failed'] and not out['undecided'] else ('failed' if out['failed'] else 'undecided')
    uinfo['solver_s'] = round(solver, 1)
    ev['solver_s'] += solver
    ev['units'].append(uinfo)
    if normal < expected_min:
        out['undecided'].append('unit %s: only %d harnesses ran, expected at least %d (vacuity guard)' % (name, normal, expected_min))
    # ---------------- concrete playback for failures: one counterexample per unit is replayed (each
    # playback is a full CBMC run); the other failing obligations are listed in the same replay file
    if len(out['failed']) > 1:
        first = out['failed'][0]
        first['also_failed'] = [g['key'] for g in out['failed'][1:]][:60]
        out['failed'] = [first]
    done = set()
    for f in out['failed']:
        if f['harness'] in done:
            # share the replay of the first failed check of this harness
            first = [g for g in out['failed'] if g['harness'] == f['harness'] and g.get('replay')]
            if first:
                f['replay'] = first[0]['replay']
                f['has_input'] = first[0]['has_input']
            continue
        done.add(f['harness'])
        try:
            playback(unit, f, pid)
        except Exception as e:  # never turn a tool problem into silence
            f['counterexample'] = 'playback failed: %r' % (e,)
    return out


def scan_assumptions(unit):
    outl = []
    for (rel, modfile) in unit.get('inject', []):
        text = open(os.path.join(unit['_dir'], modfile), encoding='utf-8').read()
        n = len(re.findall(r'kani::assume\(', text))
        if n:
            outl.append('%s: %d kani::assume sites (state-space restrictions: wf preconditions, bounds on symbolic sizes)' % (modfile, n))
        for m in re.finditer(r'#\[kani::stub\(([^)]*)\)\]', text):
            outl.append('kani::stub(%s)' % ' '.join(m.group(1).split()))
        for m in re.finditer(r'#\[kani::stub_verified\(([^)]*)\)\]', text):
            outl.append('stub_verified(%s): caller checked against callee contract' % m.group(1))
        if re.search(r'\bunsafe\b', text):
            outl.append('%s contains unsafe blocks (harness-side only)' % modfile)
    if 'verif_map' in unit.get('cfg', []):
        outl.append('std HashMap/BTreeMap replaced by the linear-scan stand-in contracts/k/common/verif_map.rs (assumed: std maps behave as finite maps)')
    return outl


def playback(unit, f, pid):
    """Ask Kani for the concrete inputs of a failing harness, store them, and run them natively."""
    h = f['harness']
    r = run_kani(unit, [h], jobs=1, timeout=3600, extra=['-Z', 'concrete-playback', '--concrete-playback=print', '--exact'] if False else ['-Z', 'concrete-playback', '--concrete-playback=print'])
    m = re.search(r'```\s*\n(.*?)```', r['out'], re.S)
    test_src = m.group(1) if m else None
    if not test_src:
        m = re.search(r'(#\[test\]\s*fn kani_concrete_playback_\w+\(\) \{.*?\n\})', r['out'], re.S)
        test_src = m.group(1) if m else None
    path = os.path.join(os.environ.get('VERIF_REPLAY_DIR') or os.path.join(VERIF, 'replay'), '%s-%s-%s.json' % (pid, unit['name'], h))
    rec = {'property': pid, 'unit': unit['name'], 'engine': 'kani', 'harness': f.get('full_name', h),
           'failed_obligation': f['key'], 'diagnostic': f['diagnostic'],
           'concrete_playback_test': test_src, 'native_replay': None, 'also_failed': f.get('also_failed', []),
           'replay_cmd': 'bin/vcheck replay %s' % path}
    if test_src:
        vals = re.findall(r'//\s*(-?\d+[^\n]*)\n\s*vec!\[([^\]]*)\]', test_src)
        rec['decoded_inputs'] = [{'value': v.strip(), 'bytes': b.strip()} for v, b in vals][:200]
        f['has_input'] = True
        f['counterexample'] = rec['decoded_inputs']
    with open(path, 'w') as fh:
        json.dump(rec, fh, indent=1)
    f['replay'] = path
    if test_src:
        nr = native_replay(unit, h, test_src)
        rec['native_replay'] = nr
        with open(path, 'w') as fh:
            json.dump(rec, fh, indent=1)


def native_replay(unit, h, test_src):
    """Run the generated test natively against the real crate code (cargo kani playback): the harness
    module includes /verif/work/k/playback/<unit>_<module>.rs under cfg(verif_playback)."""
    pb_dir = os.path.join(KWORK, 'playback')
    os.makedirs(pb_dir, exist_ok=True)
    # which injected module defines the harness?
    target_mod = None
    for (rel, modfile) in unit.get('inject', []):
        text = open(os.path.join(unit['_dir'], modfile), encoding='utf-8').read()
        stem = os.path.splitext(modfile)[0]
        open(os.path.join(pb_dir, '%s_%s.rs' % (unit['name'], stem)), 'w').write('')
        if re.search(r'\b' + re.escape(h) + r'\b', text):
            target_mod = stem
    if target_mod is None:
        target_mod = os.path.splitext(unit['inject'][0][1])[0]
    pfile = os.path.join(pb_dir, '%s_%s.rs' % (unit['name'], target_mod))
    open(pfile, 'w').write(test_src + '\n')
    m = re.search(r'fn (kani_concrete_playback_\w+)', test_src)
    tname = m.group(1) if m else 'kani_concrete_playback'
    env = kani_env(unit)
    env['RUSTFLAGS'] += ' --cfg verif_playback'
    env['CARGO_TARGET_DIR'] = os.path.join(KWORK, 'target', unit['name'] + '-playback')
    cmd = ['cargo', 'kani', 'playback', '-Z', 'concrete-playback', '-p', unit['crate'], '--', tname]
    try:
        p = subprocess.run(cmd, cwd=WS, env=env, capture_output=True, text=True, timeout=2400)
        allout = p.stdout + p.stderr
        failed = bool(re.search(r'test result: FAILED|panicked at', allout))
        ran = bool(re.search(r'running [1-9]\d* test', allout))
        res = {'cmd': 'RUSTFLAGS="%s" CARGO_TARGET_DIR=%s %s' % (env['RUSTFLAGS'], env['CARGO_TARGET_DIR'], ' '.join(cmd)),
               'reproduced_natively': failed and ran, 'ran': ran, 'output_tail': allout[-2500:]}
    except Exception as e:
        res = {'cmd': ' '.join(cmd), 'reproduced_natively': False, 'error': repr(e)}
    for (rel, modfile) in unit.get('inject', []):
        stem = os.path.splitext(modfile)[0]
        open(os.path.join(pb_dir, '%s_%s.rs' % (unit['name'], stem)), 'w').write('')
    return res


def replay(path):
    rec = json.load(open(path))
    print(json.dumps({k: rec.get(k) for k in ('property', 'unit', 'engine', 'harness', 'failed_obligation')}, indent=1))
    if rec.get('engine') != 'kani' or not rec.get('concrete_playback_test'):
        print('no concrete input recorded; diagnostic follows')
        print(rec.get('diagnostic'))
        return 0
    unit = load_unit(rec['unit'])
    prepare_ws()
    nr = native_replay(unit, rec['harness'].split('::')[-1], rec['concrete_playback_test'])
    print(nr.get('output_tail', nr))
    print('reproduced natively:', nr.get('reproduced_natively'))
    return 1 if nr.get('reproduced_natively') else 0


if __name__ == '__main__':
    if sys.argv[1] == 'prepare':
        print(prepare_ws())
    elif sys.argv[1] == 'run':
        unit = load_unit(sys.argv[2])
        problems, _ = prepare_ws()
        print(problems, check_anchors(unit))
        r = run_kani(unit, sys.argv[3:], jobs=int(os.environ.get('J', '8')))
        print(r['out'][-6000:])
        for h, d in sorted(r['harnesses'].items()):
            print(h, d['verdict'], d.get('checks'), d.get('time_s'), d.get('reason'), [f['description'] for f in d['failed_checks']][:3])
        print('wall', r['wall_s'])
