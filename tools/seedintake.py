"""Take the deliveries of a seeding sub-agent (<dir>/N.diff, N.demo.rs, N.json) through tools/seedconfirm.py (confirmation in a
scratch worktree, no check on /repo) and then tools/seedscratch.py (quick check of the property on a scratch copy).
usage: seedintake.py <property> <dir> [N ...]"""
import json, os, re, subprocess, sys
VERIF = os.path.dirname(os.path.dirname(os.path.abspath(__file__)))
prop, d = sys.argv[1:3]
ns = sys.argv[3:] or ['1', '2']
ids = []
for n in ns:
    j = json.load(open(os.path.join(d, n + '.json')))
    sid = prop + '-' + re.sub(r'[^a-z0-9-]', '-', j['id'].lower())
    json.dump({'summary': j.get('breaks'), 'needs': j.get('needs_to_manifest'), 'touched_files': j.get('touched_files')}, open(os.path.join(d, 'meta%s.json' % n), 'w'))
    placement = j['demo_placement']
    crates = j.get('crates') or []
    m = re.search(r'-p (\S+)', j.get('demo_cmd', ''))
    first = m.group(1) if m else crates[0]
    crates = [first] + [c for c in crates if c != first]
    filt = 'demo_'
    cmd = ['python3', os.path.join(VERIF, 'tools/seedconfirm.py'), sid, prop, os.path.join(d, n + '.diff'), os.path.join(d, n + '.demo.rs'), placement, ','.join(crates), filt]
    print('>>', ' '.join(cmd), flush=True)
    r = subprocess.run(cmd, env=dict(os.environ, SEED_NO_CHECK='1'), capture_output=True, text=True)
    print(r.stdout[-1500:], r.stderr[-1500:], flush=True)
    if os.path.exists(os.path.join(VERIF, 'seeded', sid, 'meta.json')):
        ids.append(sid)
if ids:
    r = subprocess.run(['python3', os.path.join(VERIF, 'tools/seedscratch.py')] + ids, capture_output=True, text=True)
    print(r.stdout[-3000:], r.stderr[-1500:])
