AST = 'yash-fnmatch/src/ast.rs'
PARSE = 'yash-fnmatch/src/ast/parse.rs'
CI = 'yash-fnmatch/src/char_iter.rs'
MOD_HEAD = '''    use vstd::prelude::*;
    use std::ops::RangeInclusive;
    use vstd::std_specs::iter::IteratorSpec;
'''
UNIT = {
    'name': 'fnparse',
    'property': 'C04',
    'rlimit': 60,
    'verus_args': ['--edition=2024'],
    'items': [
        ('@raw', 'pub mod fp {\n' + MOD_HEAD),
        (CI, ['enum PatternChar']),
        ('@raw', 'use PatternChar::*;\n'),
        (CI, ['impl PatternChar', 'fn char_value']),
        (AST, ['enum BracketAtom']),
        (AST, ['enum BracketItem']),
        (AST, ['struct Bracket']),
        (AST, ['enum Atom']),
        ('@file', 'prelude.rs'),
        (PARSE, ['fn make_range'], {'rewrites': ['let-chain-last'], 'ensures': [
            '!folds(old(items)@) ==> final(items)@ == old(items)@',
            'folds(old(items)@) ==> final(items)@.len() == old(items)@.len() - 2 && final(items)@.subrange(0, old(items)@.len() - 3) == old(items)@.subrange(0, old(items)@.len() - 3)',
            'folds(old(items)@) ==> final(items)@.last() is Range && final(items)@.last()->Range_0@.start == old(items)@[old(items)@.len() - 3]->Atom_0 && final(items)@.last()->Range_0@.end == old(items)@[old(items)@.len() - 1]->Atom_0',
        ]}),
        ('@raw', '}\n'),
    ],
}
