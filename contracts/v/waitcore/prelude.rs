// ---------------------------------------------------------------------------
// Prelude of unit waitcore (properties C11 / C13, kernel): the waiting step of the `wait` built-in
// (yash-builtin/src/wait/core.rs wait_for_any_job_or_trap) and the loop over its operands (yash-builtin/src/wait.rs
// Command::await_jobs).
// C11 "each delivery of a trapped signal makes its action run exactly once ... (or on interrupting `wait`)": while `wait`
// sleeps, every signal the system reports is offered to the trap runner exactly once, in the order reported, up to and
// including the first one whose trap ran - which ends the waiting with that signal and the trap's result; a SIGINT with its
// default action ends it at once with an interrupt.  C13: the internal SIGCHLD disposition is in place before the first
// wait(); a status reported by wait() goes to the job table unchanged and ends the step; `wait` with operands answers the
// status of the LAST operand, 127 for one that designates no job, and without operands waits for all jobs.
//
// Hand-written model text (ASSUMED): enabling the SIGCHLD disposition, the system's wait(), wait_for_signals, the job table's
// update_status, the trap runner taken from env.any and status::wait_while_running with its two predicates are opaque
// calls appending to an event log; `for signal in signals.iter().cloned()` / `for index in indexes` take the first element
// off on every round.  Await points dropped; termination of the waiting loop is not claimed.
// ---------------------------------------------------------------------------
pub trait SignalSystem { const SIGINT: signal::Number; }
pub trait Wait {} pub trait WaitForSignals {}
pub mod signal { #[derive(Clone, Copy, Debug, Eq, PartialEq)] pub struct Number(pub i32); }
pub mod yash_env { pub mod semantics { pub type Result<T = ()> = std::ops::ControlFlow<crate::wc::Divert, T>; } }
impl vstd::std_specs::cmp::PartialEqSpecImpl for signal::Number {
    open spec fn obeys_eq_spec() -> bool { true }
    open spec fn eq_spec(&self, other: &signal::Number) -> bool { *self == *other }
}
impl vstd::std_specs::cmp::PartialEqSpecImpl for Errno {
    open spec fn obeys_eq_spec() -> bool { true }
    open spec fn eq_spec(&self, other: &Errno) -> bool { *self == *other }
}
/// `libc::ECHILD` on this platform (assumed: 10)
impl Errno { pub const ECHILD: Errno = Errno(10); }
#[derive(Clone, Copy, Debug, PartialEq, Eq)]
pub struct Pid(pub i32);
impl Pid { pub const ALL: Pid = Pid(-1); }
#[derive(Clone, Copy)]
pub struct ProcessState { pub verif_opaque: u8 }
pub uninterp spec fn status_of_signal(n: signal::Number) -> ExitStatus;
impl From<signal::Number> for ExitStatus {
    #[verifier::external_body]
    fn from(n: signal::Number) -> (e: ExitStatus) ensures e == status_of_signal(n) { unimplemented!() }
}
pub enum Ev {
    Armed { ok: bool }, Waited { answer: std::result::Result<Option<(Pid, ProcessState)>, Errno> }, Slept { signals: Seq<signal::Number> },
    Updated { pid: Pid, state: ProcessState }, Offered { signal: signal::Number, ran: Option<yash_env::semantics::Result> },
    WaitedFor { what: Option<usize>, answer: std::result::Result<ExitStatus, Error> },
}
pub struct Env<S> { pub log: Ghost<Seq<Ev>>, pub verif_sigint_default: bool, pub system: S }
#[verifier::external_body]
pub fn verif_enable_sigchld<S>(env: &mut Env<S>) -> (r: std::result::Result<(), Errno>)
    ensures final(env).log@ == old(env).log@.push(Ev::Armed { ok: r is Ok }), final(env).verif_sigint_default == old(env).verif_sigint_default
{ unimplemented!() }
#[verifier::external_body]
pub fn verif_wait<S>(env: &mut Env<S>, target: Pid) -> (r: std::result::Result<Option<(Pid, ProcessState)>, Errno>)
    ensures final(env).log@ == old(env).log@.push(Ev::Waited { answer: r }), final(env).verif_sigint_default == old(env).verif_sigint_default
{ unimplemented!() }
#[verifier::external_body]
pub fn verif_update_status<S>(env: &mut Env<S>, pid: Pid, state: ProcessState)
    ensures final(env).log@ == old(env).log@.push(Ev::Updated { pid, state }), final(env).verif_sigint_default == old(env).verif_sigint_default
{ unimplemented!() }
pub struct SignalList { pub list: Vec<signal::Number> }
impl SignalList {
    #[verifier::external_body]
    pub fn contains(&self, n: &signal::Number) -> (r: bool) ensures r == self.list@.contains(*n) { unimplemented!() }
}
/// taking the first signal off the list (what `for signal in signals.iter().cloned()` does on every round; ASSUMED)
#[verifier::external_body]
pub fn verif_next_signal(rest: &mut Vec<signal::Number>) -> (r: Option<signal::Number>)
    ensures old(rest)@.len() == 0 ==> r is None && final(rest)@ == old(rest)@,
        old(rest)@.len() > 0 ==> r == Some(old(rest)@[0]) && final(rest)@ == old(rest)@.subrange(1, old(rest)@.len() as int)
{ unimplemented!() }
#[verifier::external_body]
pub fn verif_to_vec(signals: &SignalList) -> (r: Vec<signal::Number>) ensures r@ == signals.list@ { unimplemented!() }
impl<S> Env<S> {
    #[verifier::external_body]
    pub fn wait_for_signals(&mut self) -> (r: SignalList)
        ensures final(self).log@ == old(self).log@.push(Ev::Slept { signals: r.list@ }), final(self).verif_sigint_default == old(self).verif_sigint_default
    { unimplemented!() }
    #[verifier::external_body]
    pub fn sigint_has_default_action(&self) -> (r: bool) ensures r == self.verif_sigint_default { unimplemented!() }
}
/// the trap runner taken from env.any (yash-semantics run_trap_if_caught): Some(result) iff a trap ran for this signal
#[verifier::external_body]
pub fn run_trap_if_caught<S>(env: &mut Env<S>, signal: signal::Number) -> (r: Option<yash_env::semantics::Result>)
    ensures final(env).log@ == old(env).log@.push(Ev::Offered { signal, ran: r }), final(env).verif_sigint_default == old(env).verif_sigint_default
{ unimplemented!() }
/// the expansion of thiserror's #[from] on Error::SystemError (hand-written)
impl From<Errno> for Error {
    fn from(e: Errno) -> (r: Error) ensures r == Error::SystemError(e) { Error::SystemError(e) }
}
impl vstd::std_specs::convert::FromSpecImpl<Errno> for Error {
    open spec fn obeys_from_spec() -> bool { true }
    open spec fn from_spec(e: Errno) -> Error { Error::SystemError(e) }
}
// ---- wait.rs Command::await_jobs ----
pub struct Command { pub verif_opaque: u8 }
/// `status::wait_while_running(env, &mut status::job_status(index, job_control))` (k/waitstatus has job_status, bounded) and, with
/// None, `status::wait_while_running(env, &mut status::any_job_is_running(job_control))`: waits until the job (all jobs) no longer
/// runs and answers its status
#[verifier::external_body]
pub fn verif_wait_while_running<S>(env: &mut Env<S>, what: Option<usize>) -> (r: std::result::Result<ExitStatus, Error>)
    ensures final(env).log@ == old(env).log@.push(Ev::WaitedFor { what, answer: r })
{ unimplemented!() }
/// taking the first operand off (what `for index in indexes` does on every round; ASSUMED)
#[verifier::external_body]
pub fn verif_next_index(rest: &mut Vec<Option<usize>>) -> (r: Option<Option<usize>>)
    ensures old(rest)@.len() == 0 ==> r is None && final(rest)@ == old(rest)@,
        old(rest)@.len() > 0 ==> r == Some(old(rest)@[0]) && final(rest)@ == old(rest)@.subrange(1, old(rest)@.len() as int)
{ unimplemented!() }
pub enum OptState { On, Off }
pub use OptState::Off;
/// the jobs among the operands, in order (those that designate a job)
pub open spec fn found(ix: Seq<Option<usize>>) -> Seq<usize> decreases ix.len() {
    if ix.len() == 0 { Seq::empty() } else { let r = found(ix.drop_last()); match ix.last() { Some(i) => r.push(i), None => r } }
}
