// ---------------------------------------------------------------------------
// Prelude of unit typesetvars (property C16, kernel): yash-builtin/src/typeset/set_variables.rs SetVariables::execute, the
// variable-setting half of `typeset`, `local`, `export` and `readonly`.
// C16 "locals ... vanish at return", "local declarations, exports, read-only marks": every operand that passes the name
// checks makes the built-in ask the environment for the variable of exactly its name (the part before `=`) in exactly the
// scope the invocation asked for - LOCAL for a plain typeset / local in a function, whether or not the operand has a value
// or a visible outer variable of that name exists; GLOBAL with -g / export / readonly - once, in operand order; a value is
// assigned and the attributes are applied only through that variable; an operand with a non-portable name in portable
// mode is an error and asks for nothing; the built-in succeeds iff there was no error.
//
// Hand-written model text (ASSUMED): Env::get_or_create_variable answers a handle that logs what is done through it
// (VariableSet::get_or_new and the VariableRefMut operations are under contract in units varset / variable); splitting the operand
// at the first `=` (str::split_once + String::truncate), the two portability predicates, OptionSet::get are helpers over
// uninterpreted functions; `for mut field in self.variables` takes the first element off on every round, `for &(attr, state) in
// &self.attrs` is a while loop over the index.
// ---------------------------------------------------------------------------
#[derive(Clone)]
pub struct Location { pub verif_opaque: u8 }
pub struct Field { pub value: String, pub origin: Location }
pub struct Value { pub verif_opaque: u8 }
pub uninterp spec fn name_of(operand: Seq<char>) -> Seq<char>;
pub uninterp spec fn portable_name(name: Seq<char>) -> bool;
#[verifier::external_body]
pub fn is_portable_variable_name(name: &String) -> (r: bool) ensures r == portable_name(name@) { unimplemented!() }
/// `if let Some((name, value)) = field.value.split_once('=') { value_to_assign = Some(Value::scalar(value)); field.value.truncate(name.len()); }`
#[verifier::external_body]
pub fn verif_split_assignment(field: &mut Field) -> (r: Option<Value>)
    ensures final(field).value@ == name_of(old(field).value@), final(field).origin == old(field).origin
{ unimplemented!() }
pub enum ShellOption { Portable, Other(u8) }
pub use ShellOption::Portable;
pub struct OptionSet { pub verif_portable: bool }
impl OptionSet {
    #[verifier::external_body]
    pub fn get(&self, o: ShellOption) -> (r: State) ensures o is Portable ==> (r == State::On <==> self.verif_portable) { unimplemented!() }
}
impl vstd::std_specs::cmp::PartialEqSpecImpl for State {
    open spec fn obeys_eq_spec() -> bool { true }
    open spec fn eq_spec(&self, other: &State) -> bool { *self == *other }
}
pub struct Variable { pub verif_opaque: u8 }
pub struct VariableSet { pub verif_opaque: u8 }
impl VariableSet {
    /// look-ups (unit varset): they change nothing
    #[verifier::external_body]
    pub fn get_scoped(&self, name: &String, scope: yash_env::variable::Scope) -> (r: Option<&Variable>) { unimplemented!() }
    #[verifier::external_body]
    pub fn get(&self, name: &String) -> (r: Option<&Variable>) { unimplemented!() }
}
pub struct Env<S> { pub options: OptionSet, pub variables: VariableSet, pub log: Ghost<Seq<VEv>>, pub system: S }
pub struct AssignError { pub new_value: Value, pub assigned_location: Option<Location>, pub read_only_location: Location }
/// a handle on one variable (VariableRefMut): everything done through it is logged behind the request that produced it
pub struct VariableRefMut<'a, S> { pub env: &'a mut Env<S>, pub read_only_location: Option<Location> }
impl<S> Env<S> {
    #[verifier::external_body]
    pub fn get_or_create_variable(&mut self, name: &String, scope: yash_env::variable::Scope) -> (v: VariableRefMut<'_, S>)
        ensures v.env.log@ == old(self).log@.push(VEv::Requested { name: name@, scope }), v.env.options == old(self).options,
            final(self).log@ == final(v.env).log@, final(self).options == final(v.env).options
    { unimplemented!() }
}
impl<'a, S> VariableRefMut<'a, S> {
    #[verifier::external_body]
    pub fn assign(&mut self, value: Value, location: Location) -> (r: Result<Option<Value>, AssignError>)
        ensures mut_ref_future(final(self).env) == mut_ref_future(old(self).env), final(self).env.log@ == old(self).env.log@.push(VEv::Assigned { ok: r is Ok }), final(self).env.options == old(self).env.options,
            r matches Err(e) ==> e.assigned_location is Some
    { unimplemented!() }
    #[verifier::external_body]
    pub fn make_read_only(&mut self, location: Location)
        ensures mut_ref_future(final(self).env) == mut_ref_future(old(self).env), final(self).env.log@ == old(self).env.log@.push(VEv::MadeReadOnly), final(self).env.options == old(self).env.options
    { unimplemented!() }
    #[verifier::external_body]
    pub fn export(&mut self, on: bool)
        ensures mut_ref_future(final(self).env) == mut_ref_future(old(self).env), final(self).env.log@ == old(self).env.log@.push(VEv::Exported { on }), final(self).env.options == old(self).env.options
    { unimplemented!() }
}
pub struct AssignReadOnlyError { pub name: String, pub new_value: Value, pub assigned_location: Location, pub read_only_location: Location }
pub struct UndoReadOnlyError { pub name: Field, pub read_only_location: Location }
pub enum ExecuteError { AssignReadOnlyVariable(AssignReadOnlyError), NonPortableVariableName(Field), NonPortableReadOnlyVariable(Field), UndoReadOnlyVariable(UndoReadOnlyError) }
/// taking the first operand off (what `for mut field in self.variables` does on every round; ASSUMED)
#[verifier::external_body]
pub fn verif_next_field(rest: &mut Vec<Field>) -> (r: Option<Field>)
    ensures old(rest)@.len() == 0 ==> r is None && final(rest)@ == old(rest)@,
        old(rest)@.len() > 0 ==> r == Some(old(rest)@[0]) && final(rest)@ == old(rest)@.subrange(1, old(rest)@.len() as int)
{ unimplemented!() }
/// the requests the operands ops[0..] call for: one per operand whose name passes the portability check, in order
pub open spec fn wanted(ops: Seq<Field>, portable: bool, scope: yash_env::variable::Scope) -> Seq<(Seq<char>, yash_env::variable::Scope)> decreases ops.len() {
    if ops.len() == 0 { Seq::empty() } else {
        let r = wanted(ops.drop_last(), portable, scope); let n = name_of(ops.last().value@);
        if portable && !portable_name(n) { r } else { r.push((n, scope)) }
    }
}
impl vstd::std_specs::convert::FromSpecImpl<Scope> for yash_env::variable::Scope {
    open spec fn obeys_from_spec() -> bool { true }
    open spec fn from_spec(value: Scope) -> yash_env::variable::Scope { match value { Scope::Local => yash_env::variable::Scope::Local, Scope::Global => yash_env::variable::Scope::Global } }
}
