# Unit textunit: what each unit of a text expands to (kernel of C01).
TX = 'yash-semantics/src/expansion/initial/text.rs'
PHRASE = 'yash-semantics/src/expansion/phrase.rs'
ATTR = 'yash-env/src/semantics/expansion/attr.rs'
MOD_HEAD = '''    use vstd::prelude::*;
'''
L0 = 'old(env).log@'
L1 = 'final(env).log@'
def one(e):
    return L1 + ' == ' + L0 + '.push(' + e + ') && r == result_of(' + e + ', ' + L0 + '.len() as int)'
UNIT = {
    'name': 'textunit',
    'property': 'C01',
    'rlimit': 60,
    'verus_args': ['--edition=2024'],
    'vacuity_floor': 1,
    'items': [
        ('@raw', 'pub mod tu {\n' + MOD_HEAD),
        (ATTR, ['enum Origin']),
        (ATTR, ['struct AttrChar']),
        (PHRASE, ['enum Phrase'], {'drop_derives': True}),
        ('@file', 'prelude.rs'),
        (TX, ["impl<S: Runtime + 'static> Expand<S> for TextUnit", 'fn expand'], {'ret': 'r', 'rewrites': ['strip-async'],
            'token_rewrites': [
                # rule ref-pattern-deref, by hand: `&Variant(x) => .. x ..` = `Variant(r) => .. *r ..` (Verus has no reference patterns)
                ('& Literal ( value ) => Ok ( Phrase :: Char ( AttrChar { value ,', 'Literal(verif_v) => Ok(Phrase::Char(AttrChar { value: *verif_v,'),
                ('& Backslashed ( value ) => {', 'Backslashed(verif_v) => { let value = *verif_v;'),
                ('modifier : & yash_syntax :: syntax :: Modifier :: None ,', 'modifier: &yash_syntax::syntax::Modifier::None, verif_braced: Ghost(None),'),
                ('Box :: pin ( param_ref . expand ( env ) ) . await', 'param_ref.expand(env)'),
                ('Box :: pin ( ParamRef :: from ( param ) . expand ( env ) ) . await', 'ParamRef::from(param).expand(env)'),
                ('super :: command_subst :: expand', 'command_subst::expand', 2),
                ('Box :: pin ( super :: arith :: expand ( content , location , env ) ) . await', 'arith::expand(content, location, env)'),
            ],
            'ensures': [
                # a literal character: itself, unquoted, not quoting, of literal origin; nothing is expanded
                '*self matches TextUnit::Literal(c) ==> ' + L1 + ' == ' + L0 + ' && (r matches Ok(Phrase::Char(a)) && a == (AttrChar { value: c, origin: Origin::Literal, is_quoted: false, is_quoting: false }))',
                # a backslashed character: ONE field of two characters: the backslash, quoting; the character, quoted
                '*self matches TextUnit::Backslashed(c) ==> ' + L1 + ' == ' + L0 + ' && (r matches Ok(Phrase::Field(f)) && f@ == seq![AttrChar { value: \'\\\\\', origin: Origin::Literal, is_quoted: false, is_quoting: true }, AttrChar { value: c, origin: Origin::Literal, is_quoted: true, is_quoting: false }])',
                # every other unit is handed to its expander exactly once and that answer is the answer
                '*self matches TextUnit::RawParam { param, location } ==> ' + one('Ev::Param { id: param.verif_id, braced: false }'),
                '*self matches TextUnit::BracedParam(bp) ==> ' + one('Ev::Param { id: bp.verif_id, braced: true }'),
                '*self matches TextUnit::CommandSubst { content, location } ==> ' + one('Ev::CommandSubst { content: content.verif_id }'),
                '*self matches TextUnit::Backquote { content, location } ==> ' + one('Ev::CommandSubst { content: content.verif_id }'),
                '*self matches TextUnit::Arith { content, location } ==> ' + one('Ev::Arith { content: content.verif_id }'),
            ]}),
        ('@raw', '}\n'),
    ],
}
