// ---------------------------------------------------------------------------
// Prelude of unit fnregex (model of std::fmt::Write and assumed contract of str::contains).
// ---------------------------------------------------------------------------

/// Model of `std::fmt::Write` (the real functions take `&mut dyn Write`; rewrite rule dyn-to-generic makes
/// them generic over this trait).  `out()` is everything written so far.  ASSUMED contract of the sink:
/// it appends what it is given and, like `String`, never fails (the extracted code `unwrap()`s every write).
pub trait Write {
    spec fn out(&self) -> Seq<char>;

    fn write_char(&mut self, c: char) -> (r: core::result::Result<(), core::fmt::Error>)
        ensures r is Ok, final(self).out() == old(self).out().push(c);

    fn write_str(&mut self, s: &str) -> (r: core::result::Result<(), core::fmt::Error>)
        ensures r is Ok, final(self).out() == old(self).out() + s@;

    fn write_fmt(&mut self, args: core::fmt::Arguments<'_>) -> (r: core::result::Result<(), core::fmt::Error>)
        ensures r is Ok, old(self).out().is_prefix_of(final(self).out());
}

/// `p` occurs in the string (meaning of `str::contains` for the pattern type `P`)
pub uninterp spec fn pat_in<P>(s: Seq<char>, p: P) -> bool;
/// ASSUMED: for a `char` pattern, `contains` is membership
pub broadcast axiom fn axiom_pat_char(s: Seq<char>, c: char)
    ensures #[trigger] pat_in::<char>(s, c) == s.contains(c);

pub assume_specification<P: core::str::pattern::Pattern>[ str::contains::<P> ](s: &str, p: P) -> (b: bool)
    ensures b == pat_in(s@, p);

/// the characters of the literal ".*" (proved with reveal_strlit, not assumed)
pub broadcast proof fn lemma_dot_star()
    ensures #[trigger] ".*"@ == seq!['.', '*'],
{
    reveal_strlit(".*");
    assert(".*"@ =~= seq!['.', '*']);
}

// accessors of RangeInclusive (vstd gives the view `r@.start`, `r@.end`)
pub assume_specification<Idx>[ std::ops::RangeInclusive::<Idx>::start ](r: &std::ops::RangeInclusive<Idx>) -> (s: &Idx)
    ensures *s == r@.start;
pub assume_specification<Idx>[ std::ops::RangeInclusive::<Idx>::end ](r: &std::ops::RangeInclusive<Idx>) -> (e: &Idx)
    ensures *e == r@.end;

/// `char::is_ascii_punctuation` (std documentation: U+0021..=002F, 003A..=0040, 005B..=0060, 007B..=007E)
pub assume_specification[ char::is_ascii_punctuation ](c: &char) -> (b: bool)
    ensures b == ((0x21 <= *c as u32 <= 0x2F) || (0x3A <= *c as u32 <= 0x40) || (0x5B <= *c as u32 <= 0x60) || (0x7B <= *c as u32 <= 0x7E));
pub assume_specification[ char::is_ascii ](c: &char) -> (b: bool)
    ensures b == (*c as u32 <= 0x7F);
