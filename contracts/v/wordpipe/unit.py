# Unit wordpipe: the stages of word expansion put together (kernel of C01).
EX = 'yash-semantics/src/expansion.rs'
INI = 'yash-semantics/src/expansion/initial.rs'
MOD_HEAD = '''    use vstd::prelude::*;
'''
L0 = 'old(env).verif_log@'
L1 = 'final(env).verif_log@'
N0 = L0 + '.len() as int'
MULTI = [
    # the initial expansion of exactly this word runs first, once, in a splitting context
    L1 + '.len() > ' + N0 + ' && (forall|k: int| 0 <= k < ' + N0 + ' ==> #[trigger] ' + L1 + '[k] == ' + L0 + '[k])',
    L1 + '[' + N0 + '] matches Ev::Expanded { word: w, will_split, phrase, ifs_after, status } && w == word.verif_id && will_split',
    # it failed: nothing else happens, nothing is delivered
    '(' + L1 + '[' + N0 + '] matches Ev::Expanded { word: w, will_split, phrase, ifs_after, status } && phrase is None) ==> r is Err && ' + L1 + '.len() == ' + N0 + ' + 1 && final(results)@ == old(results)@',
    # it succeeded: every field of its result is split, in order, with the IFS the variables hold AFTER the expansion,
    # and every split field - in order, none left out, none twice - is subjected to pathname expansion; a completed
    # expansion delivers exactly the answers of those pathname expansions, appended in order
    'r is Ok ==> (' + L1 + '[' + N0 + '] matches Ev::Expanded { word: w, will_split, phrase, ifs_after, status } && phrase matches Some(pv) && ({ let sf = split_all(pv, ifs_after); '
    + L1 + '.len() == ' + N0 + ' + 1 + sf.len() && (forall|k: int| 0 <= k < sf.len() ==> (#[trigger] ' + L1 + '[' + N0 + ' + 1 + k] matches Ev::Globbed { chars, result } && chars == sf[k] && !(result matches GlobResult::One(Err(_))))) '
    '&& final(results)@ == old(results)@ + globbed(' + L1 + ', ' + N0 + ' + 1, sf.len() as int) }))',
    # the status handed on is that of the last command substitution of the initial expansion
    'r matches Ok(st) ==> (' + L1 + '[' + N0 + '] matches Ev::Expanded { word: w, will_split, phrase, ifs_after, status } && st == status)',
    # (the same, as a sum: what is delivered is what the pathname expansions recorded since the call answered; this word is the only one expanded)
    'r is Ok ==> final(results)@ =~= old(results)@ + globbed(' + L1 + ', ' + N0 + ', ' + L1 + '.len() - ' + N0 + ')',
    'forall|k: int| (' + N0 + ') < k < ' + L1 + '.len() ==> !(#[trigger] ' + L1 + '[k] is Expanded)',
    # an interrupted pathname expansion ends the expansion there: what was delivered before stays, nothing follows
    '(r is Err && ' + L1 + '.len() > ' + N0 + ' + 1) ==> (' + L1 + '[' + N0 + '] matches Ev::Expanded { word: w, will_split, phrase, ifs_after, status } && phrase matches Some(pv) && ({ let sf = split_all(pv, ifs_after); let n = ' + L1 + '.len() - ' + N0 + ' - 1; '
    'n <= sf.len() && (forall|k: int| 0 <= k < n ==> (#[trigger] ' + L1 + '[' + N0 + ' + 1 + k] matches Ev::Globbed { chars, result } && chars == sf[k])) && (' + L1 + '.last() matches Ev::Globbed { chars, result } && result matches GlobResult::One(Err(_))) }))',
]
SINGLE = [
    # the word is expanded, once; it is neither split nor subjected to pathname expansion: nothing else happens
    L1 + '.len() == ' + N0 + ' + 1 && (forall|k: int| 0 <= k < ' + N0 + ' ==> #[trigger] ' + L1 + '[k] == ' + L0 + '[k])',
    L1 + '[' + N0 + '] matches Ev::Expanded { word: w, will_split, phrase, ifs_after, status } && w == word.verif_id && (phrase is None ==> r is Err)',
]
UNIT = {
    'name': 'wordpipe',
    'property': 'C01',
    'rlimit': 80,
    'verus_args': ['--edition=2024'],
    'vacuity_floor': 2,
    # vacuity guard: with `false` appended to their contracts, these functions must FAIL (the assumed contracts of the stages are not contradictory)
    'controls': {EX + '::expand_word_multiple': {'ensures': {'append': 'false'}}, EX + '::expand_word': {'ensures': {'append': 'false'}}},
    'control_expect': ['expand_word_multiple', 'expand_word/'],
    'items': [
        ('@raw', 'pub mod wp {\n' + MOD_HEAD),
        ('yash-env/src/variable/constants.rs', ['const IFS'], {'static_str': True}),
        ('@file', 'prelude.rs'),
        ('@raw', 'pub mod initial {\n    use super::*;\n'),
        (INI, ['struct Env'], {'drop_derives': 'all'}),
        (INI, ["impl<'a, S> Env<'a, S>", 'fn new'], {'ret': 'r', 'ensures': [
            # the expansion environment starts in a SPLITTING context, with no command substitution performed yet
            'r.will_split && r.last_command_subst_exit_status is None && *r.inner == *old(inner) && mut_ref_future(r.inner) == mut_ref_future(inner)']}),
        ('@raw', '}\n'),
        (EX, ['fn expand_word_multiple'], {'ret': 'r', 'rewrites': ['strip-async'],
            'entry_ghost': 'let ghost verif_n0 = env.verif_log@.len() as int;',
            'attrs': ['#[verifier::loop_isolation(false)]'],
            'sig_token_rewrites': [('results : & mut R', 'results: &mut Vec<Field>'), ('< S , R >', '<S>'), ('R : Extend < Field > ,', '')],
            'token_rewrites': [
                ('env . inner . variables . get_scalar ( IFS ) . map ( Ifs :: new ) . unwrap_or_default ( )', 'verif_ifs_of(env.inner.variables.get_scalar(IFS))'),
                ('for chars in phrase', 'let ghost verif_pv = phrase.verif_fields@; let verif_fields = phrase.verif_into_fields(); for chars in verif_it: verif_fields'),
                ('for field in split_fields', 'let ghost verif_l1 = env.inner.verif_log@; for field in verif_it2: split_fields'),
                ('results . extend ( fields )', 'verif_extend(results, fields)', '*'),
                ('results . extend ( std :: iter :: once ( field ) )', 'verif_extend_one(results, field)', '*'),
            ],
            'ensures': MULTI,
            'ghost_before': [('Ok ( env . last_command_subst_exit_status )', 'proof { assert(verif_pv.take(verif_pv.len() as int) =~= verif_pv); lemma_globbed_skip(env.inner.verif_log@, verif_n0, env.inner.verif_log@.len() - verif_n0 - 1); }'),
                ('return Err ( Error {', 'proof { assert(verif_pv.take(verif_pv.len() as int) =~= verif_pv); }')],
            'loops': {
                0: {'body_end': 'proof { assert(verif_pv.take(verif_it.index() + 1).drop_last() =~= verif_pv.take(verif_it.index() as int)); assert(verif_pv.take(verif_it.index() + 1).last() == chars@); }',
                    'invariant': [
                    'verif_fields@.len() == verif_pv.len()', 'forall|i: int| 0 <= i < verif_fields@.len() ==> (#[trigger] verif_fields@[i])@ == verif_pv[i]',
                    'chars_of(split_fields@) =~= split_all(verif_pv.take(verif_it.index() as int), ifs.verif_id@)',
                ]},
                1: {'body_start': 'let ghost verif_lb = env.inner.verif_log@; let ghost verif_k = verif_it2.index() as int;',
                    'body_end': 'proof { lemma_globbed_prefix(verif_lb, env.inner.verif_log@, verif_l1.len() as int, verif_k); }',
                    'invariant': [
                    'env.inner.verif_log@.len() == verif_l1.len() + verif_it2.index()',
                    'forall|k: int| 0 <= k < verif_l1.len() ==> #[trigger] env.inner.verif_log@[k] == verif_l1[k]',
                    'forall|k: int| 0 <= k < verif_it2.index() ==> (#[trigger] env.inner.verif_log@[verif_l1.len() + k] matches Ev::Globbed { chars, result } && chars == split_fields@[k].chars@ && !(result matches GlobResult::One(Err(_))))',
                    'results@ == old(results)@ + globbed(env.inner.verif_log@, verif_l1.len() as int, verif_it2.index() as int)',
                    'forall|k: int| verif_l1.len() <= k < env.inner.verif_log@.len() ==> !(#[trigger] env.inner.verif_log@[k] is Expanded)',
                ]},
            }}),
        (EX, ['fn expand_word_attr'], {'ret': 'r', 'rewrites': ['strip-async'],
            'ensures': SINGLE + [
                # joined with the IFS of that moment into ONE field
                'r matches Ok(p) ==> (' + L1 + '[' + N0 + '] matches Ev::Expanded { word: w, will_split, phrase, ifs_after, status } && phrase matches Some(pv) && p.0.chars@ == joined(pv, final(env).variables) && p.1 == status)',
            ]}),
        (EX, ['fn expand_word'], {'ret': 'r', 'rewrites': ['strip-async'],
            'ensures': SINGLE + [
                # ... whose quotes are removed
                'r matches Ok(p) ==> (' + L1 + '[' + N0 + '] matches Ev::Expanded { word: w, will_split, phrase, ifs_after, status } && phrase matches Some(pv) && p.0.verif_id == unquoted(joined(pv, final(env).variables)) && p.1 == status)',
            ]}),
        (EX, ['fn expand_word_with_mode'], {'ret': 'r', 'rewrites': ['strip-async'],
            'sig_token_rewrites': [('results : & mut R', 'results: &mut Vec<Field>'), ('< S , R >', '<S>'), ('R : Extend < Field > ,', '')],
            'token_rewrites': [('results . extend ( std :: iter :: once ( field ) )', 'verif_extend_one(results, field)', '*')],
            'ensures': ['mode is Single ==> (' + e + ')' for e in SINGLE] + [
                # a word that is expanded to a single field delivers exactly that one field - and nothing on failure
                'mode is Single && r is Ok ==> (' + L1 + '[' + N0 + '] matches Ev::Expanded { word: w, will_split, phrase, ifs_after, status } && phrase matches Some(pv) && final(results)@ == old(results)@.push(Field { verif_id: unquoted(joined(pv, final(env).variables)) }) && r == Ok::<Option<ExitStatus>, Error>(status))',
                'mode is Single && r is Err ==> final(results)@ == old(results)@',
            ] + ['mode is Multiple ==> (' + e + ')' for e in MULTI]}),
        (EX, ['fn expand_words'], {'ret': 'r', 'rewrites': ['strip-async'],
            'attrs': ['#[verifier::loop_isolation(false)]'],
            'sig_token_rewrites': [("words : I", "words: &'a [Word]"), ("< 'a , S , I >", "<'a, S>"), ("I : IntoIterator < Item = & 'a Word > ,", '')],
            'token_rewrites': [('for word in words', 'for word in verif_it: words')],
            'ensures': [
                'forall|k: int| 0 <= k < ' + N0 + ' ==> #[trigger] ' + L1 + '[k] == ' + L0 + '[k]',
                # every word is expanded, once, in order - and the fields are exactly what the pathname expansions answered, in order
                'r matches Ok(p) ==> expanded_words(' + L1 + ', ' + N0 + ', ' + L1 + '.len() - ' + N0 + ') =~= word_ids(words@) && p.0@ =~= globbed(' + L1 + ', ' + N0 + ', ' + L1 + '.len() - ' + N0 + ')',
            ],
            'loops': {0: {
                'body_start': 'let ghost verif_lb = env.verif_log@; let ghost verif_fb = fields@;',
                'body_end': 'proof { let n0 = old(env).verif_log@.len() as int; let a = verif_lb.len() - n0; let b = env.verif_log@.len() - verif_lb.len(); '
                            'lemma_globbed_prefix(verif_lb, env.verif_log@, n0, a); lemma_globbed_split(env.verif_log@, n0, a, b); '
                            'lemma_expanded_prefix(verif_lb, env.verif_log@, n0, a); lemma_expanded_split(env.verif_log@, n0, a, b); lemma_expanded_one(env.verif_log@, verif_lb.len() as int, b - 1, word.verif_id); '
                            'assert(word_ids(words@).take(verif_it.index() + 1) =~= word_ids(words@).take(verif_it.index() as int).push(word.verif_id)); }',
                'invariant': [
                    'env.verif_log@.len() >= old(env).verif_log@.len()',
                    'forall|k: int| 0 <= k < ' + N0 + ' ==> #[trigger] env.verif_log@[k] == ' + L0 + '[k]',
                    'fields@ =~= globbed(env.verif_log@, ' + N0 + ', env.verif_log@.len() - ' + N0 + ')',
                    'expanded_words(env.verif_log@, ' + N0 + ', env.verif_log@.len() - ' + N0 + ') =~= word_ids(words@).take(verif_it.index() as int)',
                ]}},
            'ghost_before': [('Ok ( ( fields , last_exit_status ) )', 'proof { assert(word_ids(words@).take(words@.len() as int) =~= word_ids(words@)); }')],
            }),
        ('@raw', '}\n'),
    ],
}
