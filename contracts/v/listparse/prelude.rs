// ---------------------------------------------------------------------------
// Prelude of unit listparse (property C02, kernel): yash-syntax/src/parser/list.rs Parser::list - where `;` and `&` are read.
// C02 "sequential lists ... asynchronous lists": the list handed out consists of exactly the and-or lists parsed, in order; an
// item is asynchronous exactly when the separator consumed right after it was `&`; a separator is consumed only when it is
// `;` or `&`, one after each item but possibly the last, and nothing else is consumed; when the first position turns out to be
// an alias substitution the call gives up without having consumed anything.
//
// Hand-written model text (ASSUMED): the parser is reduced to a monitor of what it consumed; and_or_list() (an and-or list, an
// alias substitution, or nothing), peek_token / take_token_raw (the token peeked is the token taken next) are opaque calls;
// Operator is reduced to the members this code names; `result = loop { .. break result; .. }` by rule loop-break-value.
// ---------------------------------------------------------------------------
pub mod lexm {
    use vstd::prelude::*;
    verus! {
    #[derive(Clone, Copy, Debug, Eq, PartialEq)]
    pub struct Keyword(pub u8);
    #[derive(Clone, Copy, Debug, Eq, PartialEq)]
    pub enum Operator { Semicolon, And, Other(u8) }
    #[derive(Clone, Copy, Debug, Eq, PartialEq)]
    pub enum TokenId { Token(Option<Keyword>), Operator(Operator), IoNumber, IoLocation, EndOfInput }
    }
}
pub use lexm::Operator::{And, Semicolon};
pub use lexm::TokenId::{Operator, Token};
pub use lexm::TokenId;
pub struct Location { pub verif_opaque: u8 }
impl Clone for Location { #[verifier::external_body] fn clone(&self) -> (r: Location) ensures r == *self { unimplemented!() } }
pub struct Word { pub location: Location }
pub struct LexToken { pub word: Word, pub id: TokenId, pub index: usize }
pub struct AndOrList { pub verif_id: int }
pub struct Item { pub and_or: Rc<AndOrList>, pub async_flag: Option<Location> }
pub struct List(pub Vec<Item>);
pub enum Rec<T> { AliasSubstituted, Parsed(T) }
pub struct Error { pub verif_opaque: u8 }
pub type Result<T> = std::result::Result<T, Error>;
/// what was consumed: the and-or lists parsed, the separators taken (true: `&`), other tokens taken
pub struct Mon { pub parsed: Seq<int>, pub seps: Seq<bool>, pub others: nat }
pub struct Parser<'a, 'b> { pub mon: Ghost<Mon>, pub verif_next: Ghost<TokenId>, pub verif_pd: core::marker::PhantomData<(&'a u8, &'b u8)> }
impl Parser<'_, '_> {
    /// parser/and_or.rs Parser::and_or_list
    #[verifier::external_body]
    pub fn and_or_list(&mut self) -> (r: Result<Rec<Option<AndOrList>>>)
        ensures final(self).mon@ == (match r { Ok(Rec::Parsed(Some(a))) => Mon { parsed: old(self).mon@.parsed.push(a.verif_id), ..old(self).mon@ }, _ => old(self).mon@ })
    { unimplemented!() }
    #[verifier::external_body]
    pub fn peek_token(&mut self) -> (r: Result<&LexToken>)
        ensures final(self).mon@ == old(self).mon@, r matches Ok(t) ==> t.id == final(self).verif_next@
    { unimplemented!() }
    /// the token peeked is the token taken
    #[verifier::external_body]
    pub fn take_token_raw(&mut self) -> (r: Result<LexToken>)
        ensures r matches Ok(t) ==> t.id == old(self).verif_next@ && final(self).mon@ == (match t.id {
                TokenId::Operator(lexm::Operator::Semicolon) => Mon { seps: old(self).mon@.seps.push(false), ..old(self).mon@ },
                TokenId::Operator(lexm::Operator::And) => Mon { seps: old(self).mon@.seps.push(true), ..old(self).mon@ },
                _ => Mon { others: old(self).mon@.others + 1, ..old(self).mon@ } }),
            r is Err ==> final(self).mon@ == old(self).mon@
    { unimplemented!() }
}
pub open spec fn item_ids(s: Seq<Item>) -> Seq<int> { Seq::new(s.len(), |i: int| s[i].and_or.verif_id) }
