//! Contracts of `JobList` (property C12), proved by Kani as an inductive step:
//! for EVERY well-formed table of a given concrete shape (which slab slots exist,
//! which are holes, free-list order) with ALL contents symbolic (pids, process
//! states, flags, current/previous indices, operation arguments), each mutator
//! re-establishes `wf` and satisfies its postcondition.  Injected as a child module
//! of yash-env/src/job.rs in the scratch copy, so private fields are reachable.
//!
//! `wf` is the property statement's five clauses, phrased over the public
//! observers (`current_job`, `previous_job`, `get`, `find_by_pid`, `len`).
#![allow(dead_code, unused_imports, unused_macros)]
use super::*;
use std::num::NonZero;

/// Upper bound on slab slots in any shape harness below (the stated bound of C12).
const MAXN: usize = 4;

fn any_signal() -> signal::Number {
    let raw: i32 = kani::any();
    kani::assume(raw != 0);
    signal::Number::from_raw_unchecked(NonZero::new(raw).unwrap())
}

fn any_result() -> ProcessResult {
    let k: u8 = kani::any();
    match k % 3 {
        0 => ProcessResult::Stopped(any_signal()),
        1 => ProcessResult::Exited(ExitStatus(kani::any())),
        _ => ProcessResult::Signaled { signal: any_signal(), core_dump: kani::any() },
    }
}

pub(super) fn any_state() -> ProcessState {
    if kani::any() { ProcessState::Running } else { ProcessState::Halted(any_result()) }
}

pub(super) fn any_job() -> Job {
    any_job_with_pid(Pid(kani::any()))
}

pub(super) fn any_job_with_pid(pid: Pid) -> Job {
    Job {
        pid,
        job_controlled: kani::any(),
        state: any_state(),
        expected_state: if kani::any() { Some(any_state()) } else { None },
        state_changed: kani::any(),
        is_owned: kani::any(),
        name: String::new(),
    }
}

/// One of the values 0..=slots+1 (concrete, chosen by the caller's loop) or, for
/// `k == slots + 2`, an arbitrary larger value: together these cover every `usize`,
/// because an index beyond `slots + 1` can never become live by a single operation and
/// is only ever compared and bounds-checked.
pub(super) fn index_choice(k: usize, slots: usize) -> usize {
    if k <= slots + 1 {
        k
    } else {
        let far: usize = kani::any();
        kani::assume(far > slots + 1);
        far
    }
}

/// Scalar snapshot of a job (everything but the name, which is always empty here).
#[derive(Clone, Copy, PartialEq, Eq)]
pub(super) struct JS {
    pid: Pid,
    job_controlled: bool,
    pub(super) state: ProcessState,
    expected_state: Option<ProcessState>,
    state_changed: bool,
    is_owned: bool,
}

pub(super) fn js(j: &Job) -> JS {
    JS { pid: j.pid, job_controlled: j.job_controlled, state: j.state, expected_state: j.expected_state,
         state_changed: j.state_changed, is_owned: j.is_owned }
}

/// Snapshot of the observable table through the public observers.
#[derive(Clone, Copy)]
pub(super) struct Snap {
    pub(super) jobs: [Option<JS>; MAXN + 2],
    pub(super) len: usize,
    cur: Option<usize>,
    prev: Option<usize>,
}

impl Snap {
    pub(super) fn get(&self, i: usize) -> Option<JS> {
        if i < MAXN + 2 { self.jobs[i] } else { None }
    }
    pub(super) fn find(&self, pid: Pid, n: usize) -> Option<usize> {
        let mut i = 0;
        while i < n {
            if let Some(j) = self.jobs[i] {
                if j.pid == pid {
                    return Some(i);
                }
            }
            i += 1;
        }
        None
    }
    fn suspended(&self, n: usize) -> usize {
        let mut c = 0;
        let mut i = 0;
        while i < n {
            if let Some(j) = self.jobs[i] {
                if j.state.is_stopped() {
                    c += 1;
                }
            }
            i += 1;
        }
        c
    }
}

pub(super) fn snapshot(list: &JobList, n: usize) -> Snap {
    let mut jobs = [None; MAXN + 2];
    let mut i = 0;
    while i < n {
        jobs[i] = list.get(i).map(js);
        i += 1;
    }
    Snap { jobs, len: list.len(), cur: list.current_job(), prev: list.previous_job() }
}

/// Builds a table of the given shape by REAL operations (so the slab's free list is a
/// reachable one), then makes every content symbolic.
/// `slots`: number of slab entries ever allocated; `holes`: indices removed, in order.
pub(super) fn shaped_list(slots: usize, holes: &[usize], cur: usize, prev: usize) -> JobList {
    let mut list = JobList::default();
    // capacity is not observable; reserving keeps reallocation (a byte-wise copy of symbolic
    // jobs, very expensive for CBMC) out of the operation under proof
    list.jobs = Slab::with_capacity(MAXN + 2);
    list.pids_to_indices = HashMap::with_capacity(MAXN + 2);
    let mut i = 0;
    while i < slots {
        // distinct concrete pids just to allocate the slots
        let idx = list.jobs.insert(Job::new(Pid(1000 + i as i32)));
        assert!(idx == i);
        i += 1;
    }
    let mut h = 0;
    while h < holes.len() {
        list.jobs.remove(holes[h]);
        h += 1;
    }
    // symbolic contents
    let mut i = 0;
    while i < slots {
        if list.jobs.contains(i) {
            // pids are concrete and pairwise distinct: the table uses a pid only through
            // equality (assumed, see unit.py), so any well-formed pid assignment is a renaming of this one
            let job = any_job_with_pid(Pid(100 + i as i32));
            list.pids_to_indices.insert(job.pid, i);
            list.jobs[i] = job;
        }
        i += 1;
    }
    list.current_job_index = cur;
    list.previous_job_index = prev;
    list.last_async_pid = Pid(kani::any());
    list
}

/// Runs `body` on every (current, previous) index pair: see `index_choice`.
macro_rules! for_all_index_pairs {
    ($slots:expr, |$cur:ident, $prev:ident| $body:block) => {
        let mut kc = 0;
        while kc <= $slots + 2 {
            let mut kp = 0;
            while kp <= $slots + 2 {
                let $cur = index_choice(kc, $slots);
                let $prev = index_choice(kp, $slots);
                $body
                kp += 1;
            }
            kc += 1;
        }
    };
}

/// The five clauses of C12 over a snapshot (n = number of slab slots inspected).
pub(super) fn wf(list: &JobList, n: usize) -> bool {
    wf_snap(&snapshot(list, n), list, n)
}

pub(super) fn wf_snap(s: &Snap, list: &JobList, n: usize) -> bool {
    let len = s.len;
    // the snapshot window sees every job
    let mut live = 0;
    let mut i = 0;
    while i < n {
        if s.jobs[i].is_some() {
            live += 1;
        }
        i += 1;
    }
    if live != len {
        return false;
    }
    // (5) each pid designates at most one job; the pid index is in sync with the table
    if list.pids_to_indices.len() != len {
        return false;
    }
    let mut i = 0;
    while i < n {
        if let Some(j) = s.jobs[i] {
            if list.find_by_pid(j.pid) != Some(i) {
                return false;
            }
        }
        i += 1;
    }
    // (1) a non-empty table has a current job
    if len > 0 {
        match s.cur {
            Some(c) => {
                if s.get(c).is_none() {
                    return false;
                }
            }
            None => return false,
        }
    }
    // (2) two or more jobs imply a previous job distinct from it
    if len >= 2 {
        match s.prev {
            Some(p) => {
                if s.get(p).is_none() || Some(p) == s.cur {
                    return false;
                }
            }
            None => return false,
        }
    }
    // (3) whenever suspended jobs exist the current job is suspended
    let susp = s.suspended(n);
    if susp >= 1 {
        match s.cur.and_then(|c| s.get(c)) {
            Some(j) => {
                if !j.state.is_stopped() {
                    return false;
                }
            }
            None => return false,
        }
    }
    // (4) with two or more, the previous job is too
    if susp >= 2 {
        match s.prev.and_then(|p| s.get(p)) {
            Some(j) => {
                if !j.state.is_stopped() {
                    return false;
                }
            }
            None => return false,
        }
    }
    true
}

/// "a job's number never changes while the job exists": every index other than
/// `except` holds the job it held before.
fn others_unchanged(pre: &Snap, post: &Snap, n: usize, except: Option<usize>) -> bool {
    let mut i = 0;
    while i < n {
        if Some(i) != except && pre.jobs[i] != post.jobs[i] {
            return false;
        }
        i += 1;
    }
    true
}

fn same_table(pre: &Snap, post: &Snap, n: usize) -> bool {
    others_unchanged(pre, post, n, None) && pre.len == post.len && pre.cur == post.cur && pre.prev == post.prev
}

fn is_susp(s: &Snap, i: Option<usize>) -> Option<bool> {
    match i {
        Some(i) => s.get(i).map(|j| j.state.is_stopped()),
        None => None,
    }
}

// ---------------------------------------------------------------- observers
/// Contracts of the read-only functions.  The two private selectors carry exactly the contract
/// that the Verus unit `joblist` ASSUMES for them (external_body there); here it is checked on the
/// real code.  The table is built once; every (current, previous) index pair is then tried by
/// assigning the two private fields.
fn check_observers(slots: usize, holes: &[usize], cur: usize, prev: usize) {
    let n = slots + 1;
    let list = shaped_list(slots, holes, cur, prev);
    let pre = snapshot(&list, n);
    // no wf assumption: the selector contracts hold for every table
    match list.any_suspended_job_but_current() {
        Some(i) => {
            assert!(i != list.current_job_index, "any_suspended_job_but_current: not the current job");
            assert!(pre.get(i).is_some() && pre.get(i).unwrap().state.is_stopped(), "any_suspended_job_but_current: suspended");
        }
        None => {
            let mut i = 0;
            while i < n {
                if let Some(j) = pre.jobs[i] {
                    assert!(i == list.current_job_index || !j.state.is_stopped(), "any_suspended_job_but_current: None only if there is none");
                }
                i += 1;
            }
        }
    }
    match list.any_job_but_current() {
        Some(i) => assert!(i != list.current_job_index && pre.get(i).is_some(), "any_job_but_current: a live job other than current"),
        None => {
            let mut i = 0;
            while i < n {
                assert!(pre.jobs[i].is_none() || i == list.current_job_index, "any_job_but_current: None only if there is none");
                i += 1;
            }
        }
    }
    // job ID resolution (%%, %+, %-, %n) = current / previous / get(n-1)
    let id_cur = id::JobId::CurrentJob.find(&list);
    assert!(id_cur.ok() == pre.cur, "%% and %+ designate the current job");
    let id_prev = id::JobId::PreviousJob.find(&list);
    assert!(id_prev.ok() == pre.prev, "%- designates the previous job");
    let mut k = 1;
    while k <= n {
        let id_n = id::JobId::JobNumber(NonZero::new(k).unwrap()).find(&list);
        match pre.get(k - 1) {
            Some(_) => assert!(id_n == Ok(k - 1), "%n designates job number n"),
            None => assert!(id_n.is_err(), "%n fails for a free number"),
        }
        k += 1;
    }
}

/// Must FAIL: claims the selector never finds a job (guards against an unreachable harness body).
fn control_selector(slots: usize, holes: &[usize]) {
    let list = shaped_list(slots, holes, 0, 1);
    assert!(list.any_job_but_current().is_none(), "CONTROL (expected to fail): any_job_but_current never finds a job");
}

macro_rules! observer_case {
    ($name:ident, $slots:expr, [$($h:expr),*], $cur:expr, $prev:expr) => {
        #[kani::proof]
        #[kani::unwind(8)]
        fn $name() { check_observers($slots, &[$($h),*], $cur, $prev); }
    };
}

#[kani::proof]
#[kani::unwind(8)]
fn c12x_control_selector_s2() { control_selector(2, &[]); }

// quick: every (current, previous) pair of the two-slot table, and the pairs of a three-slot
// table with a hole that touch the hole, the dangling index and the live slots.
observer_case!(c12q_observe_s0_c0p0, 0, [], 0, 0);
observer_case!(c12q_observe_s0_c0p1, 0, [], 0, 1);
observer_case!(c12q_observe_s0_c1p0, 0, [], 1, 0);
observer_case!(c12q_observe_s1_c0p0, 1, [], 0, 0);
observer_case!(c12q_observe_s1_c0p1, 1, [], 0, 1);
observer_case!(c12q_observe_s1_c0p2, 1, [], 0, 2);
observer_case!(c12q_observe_s1_c1p0, 1, [], 1, 0);
observer_case!(c12q_observe_s1_c1p1, 1, [], 1, 1);
observer_case!(c12q_observe_s1_c1p2, 1, [], 1, 2);
observer_case!(c12q_observe_s1_c2p0, 1, [], 2, 0);
observer_case!(c12q_observe_s1_c2p1, 1, [], 2, 1);
observer_case!(c12q_observe_s1_c2p2, 1, [], 2, 2);
observer_case!(c12q_observe_s2_c0p0, 2, [], 0, 0);
observer_case!(c12q_observe_s2_c0p1, 2, [], 0, 1);
observer_case!(c12q_observe_s2_c0p2, 2, [], 0, 2);
observer_case!(c12q_observe_s2_c0p3, 2, [], 0, 3);
observer_case!(c12q_observe_s2_c1p0, 2, [], 1, 0);
observer_case!(c12q_observe_s2_c1p1, 2, [], 1, 1);
observer_case!(c12q_observe_s2_c1p2, 2, [], 1, 2);
observer_case!(c12q_observe_s2_c1p3, 2, [], 1, 3);
observer_case!(c12q_observe_s2_c2p0, 2, [], 2, 0);
observer_case!(c12q_observe_s2_c2p1, 2, [], 2, 1);
observer_case!(c12q_observe_s2_c2p2, 2, [], 2, 2);
observer_case!(c12q_observe_s2_c2p3, 2, [], 2, 3);
observer_case!(c12q_observe_s2_c3p0, 2, [], 3, 0);
observer_case!(c12q_observe_s2_c3p1, 2, [], 3, 1);
observer_case!(c12q_observe_s2_c3p2, 2, [], 3, 2);
observer_case!(c12q_observe_s2_c3p3, 2, [], 3, 3);
observer_case!(c12q_observe_s3_h1_c0p2, 3, [1], 0, 2);
observer_case!(c12q_observe_s3_h1_c2p0, 3, [1], 2, 0);
observer_case!(c12q_observe_s3_h1_c1p0, 3, [1], 1, 0);
observer_case!(c12q_observe_s3_h1_c0p1, 3, [1], 0, 1);
observer_case!(c12q_observe_s3_h1_c4p2, 3, [1], 4, 2);
observer_case!(c12q_observe_s3_h1_c2p4, 3, [1], 2, 4);
observer_case!(c12q_observe_s3_h1_c0p0, 3, [1], 0, 0);
// thorough: all pairs of the three-slot shapes
observer_case!(c12t_observe_s3_h1_c0p3, 3, [1], 0, 3);
observer_case!(c12t_observe_s3_h1_c0p4, 3, [1], 0, 4);
observer_case!(c12t_observe_s3_h1_c1p1, 3, [1], 1, 1);
observer_case!(c12t_observe_s3_h1_c1p2, 3, [1], 1, 2);
observer_case!(c12t_observe_s3_h1_c1p3, 3, [1], 1, 3);
observer_case!(c12t_observe_s3_h1_c1p4, 3, [1], 1, 4);
observer_case!(c12t_observe_s3_h1_c2p1, 3, [1], 2, 1);
observer_case!(c12t_observe_s3_h1_c2p2, 3, [1], 2, 2);
observer_case!(c12t_observe_s3_h1_c2p3, 3, [1], 2, 3);
observer_case!(c12t_observe_s3_h1_c3p0, 3, [1], 3, 0);
observer_case!(c12t_observe_s3_h1_c3p1, 3, [1], 3, 1);
observer_case!(c12t_observe_s3_h1_c3p2, 3, [1], 3, 2);
observer_case!(c12t_observe_s3_h1_c3p3, 3, [1], 3, 3);
observer_case!(c12t_observe_s3_h1_c3p4, 3, [1], 3, 4);
observer_case!(c12t_observe_s3_h1_c4p0, 3, [1], 4, 0);
observer_case!(c12t_observe_s3_h1_c4p1, 3, [1], 4, 1);
observer_case!(c12t_observe_s3_h1_c4p3, 3, [1], 4, 3);
observer_case!(c12t_observe_s3_h1_c4p4, 3, [1], 4, 4);
observer_case!(c12t_observe_s3_c0p0, 3, [], 0, 0);
observer_case!(c12t_observe_s3_c0p1, 3, [], 0, 1);
observer_case!(c12t_observe_s3_c0p2, 3, [], 0, 2);
observer_case!(c12t_observe_s3_c0p3, 3, [], 0, 3);
observer_case!(c12t_observe_s3_c0p4, 3, [], 0, 4);
observer_case!(c12t_observe_s3_c1p0, 3, [], 1, 0);
observer_case!(c12t_observe_s3_c1p1, 3, [], 1, 1);
observer_case!(c12t_observe_s3_c1p2, 3, [], 1, 2);
observer_case!(c12t_observe_s3_c1p3, 3, [], 1, 3);
observer_case!(c12t_observe_s3_c1p4, 3, [], 1, 4);
observer_case!(c12t_observe_s3_c2p0, 3, [], 2, 0);
observer_case!(c12t_observe_s3_c2p1, 3, [], 2, 1);
observer_case!(c12t_observe_s3_c2p2, 3, [], 2, 2);
observer_case!(c12t_observe_s3_c2p3, 3, [], 2, 3);
observer_case!(c12t_observe_s3_c2p4, 3, [], 2, 4);
observer_case!(c12t_observe_s3_c3p0, 3, [], 3, 0);
observer_case!(c12t_observe_s3_c3p1, 3, [], 3, 1);
observer_case!(c12t_observe_s3_c3p2, 3, [], 3, 2);
observer_case!(c12t_observe_s3_c3p3, 3, [], 3, 3);
observer_case!(c12t_observe_s3_c3p4, 3, [], 3, 4);
observer_case!(c12t_observe_s3_c4p0, 3, [], 4, 0);
observer_case!(c12t_observe_s3_c4p1, 3, [], 4, 1);
observer_case!(c12t_observe_s3_c4p2, 3, [], 4, 2);
observer_case!(c12t_observe_s3_c4p3, 3, [], 4, 3);
observer_case!(c12t_observe_s3_c4p4, 3, [], 4, 4);
observer_case!(c12t_observe_s3_h0_c0p0, 3, [0], 0, 0);
observer_case!(c12t_observe_s3_h0_c0p1, 3, [0], 0, 1);
observer_case!(c12t_observe_s3_h0_c0p2, 3, [0], 0, 2);
observer_case!(c12t_observe_s3_h0_c0p3, 3, [0], 0, 3);
observer_case!(c12t_observe_s3_h0_c1p0, 3, [0], 1, 0);
observer_case!(c12t_observe_s3_h0_c1p1, 3, [0], 1, 1);
observer_case!(c12t_observe_s3_h0_c1p2, 3, [0], 1, 2);
observer_case!(c12t_observe_s3_h0_c1p3, 3, [0], 1, 3);
observer_case!(c12t_observe_s3_h0_c2p0, 3, [0], 2, 0);
observer_case!(c12t_observe_s3_h0_c2p1, 3, [0], 2, 1);
observer_case!(c12t_observe_s3_h0_c2p2, 3, [0], 2, 2);
observer_case!(c12t_observe_s3_h0_c2p3, 3, [0], 2, 3);
observer_case!(c12t_observe_s3_h0_c3p0, 3, [0], 3, 0);
observer_case!(c12t_observe_s3_h0_c3p1, 3, [0], 3, 1);
observer_case!(c12t_observe_s3_h0_c3p2, 3, [0], 3, 2);
observer_case!(c12t_observe_s3_h0_c3p3, 3, [0], 3, 3);

// ---- cross-checks of the mutators on single concrete (shape, current, previous) cases: these give
// ---- concrete counterexamples for contracts the Verus unit proves in general.  Thorough tier only.
macro_rules! mutator_case {
    ($name:ident, $slots:expr, [$($h:expr),*], $cur:expr, $prev:expr, $op:ident) => {
        #[kani::proof]
        #[kani::unwind(8)]
        fn $name() { $op($slots, &[$($h),*], $cur, $prev); }
    };
}

fn case_insert(slots: usize, holes: &[usize], cur: usize, prev: usize) {
    let n = slots + 1;
    let mut list = shaped_list(slots, holes, cur, prev);
    let pre = snapshot(&list, n);
    kani::assume(wf_snap(&pre, &list, n));
    let job = any_job();
    let expected = js(&job);
    let existing = pre.find(job.pid, n);
    if let Some(e) = existing {
        kani::assume(!pre.get(e).unwrap().state.is_alive());
    }
    let index = list.insert(job);
    let post = snapshot(&list, n);
    assert!(wf_snap(&post, &list, n), "insert: wf re-established");
    assert!(post.get(index) == Some(expected), "insert: the returned index holds the job");
    assert!(others_unchanged(&pre, &post, n, Some(index)), "insert: no other job number changes");
}

fn case_remove(slots: usize, holes: &[usize], cur: usize, prev: usize) {
    let n = slots + 1;
    let mut list = shaped_list(slots, holes, cur, prev);
    let pre = snapshot(&list, n);
    kani::assume(wf_snap(&pre, &list, n));
    let index: usize = kani::any();
    kani::assume(index < n);
    let removed = list.remove(index);
    let post = snapshot(&list, n);
    assert!(removed.is_some() == pre.get(index).is_some(), "remove: Some iff the index was live");
    assert!(others_unchanged(&pre, &post, n, Some(index)), "remove: no other job number changes");
    assert!(wf_snap(&post, &list, n), "remove: wf re-established");
}

fn case_update(slots: usize, holes: &[usize], cur: usize, prev: usize) {
    let n = slots + 1;
    let mut list = shaped_list(slots, holes, cur, prev);
    let pre = snapshot(&list, n);
    kani::assume(wf_snap(&pre, &list, n));
    let pid = Pid(kani::any());
    let state = any_state();
    let r = list.update_status(pid, state);
    let post = snapshot(&list, n);
    assert!(r == pre.find(pid, n), "update_status: index of the job with that pid");
    assert!(others_unchanged(&pre, &post, n, r), "update_status: only that job changes");
    assert!(wf_snap(&post, &list, n), "update_status: wf re-established");
}

mutator_case!(c12t_insert_s1_c0, 1, [], 0, 1, case_insert);
mutator_case!(c12t_insert_s2_c1p0, 2, [], 1, 0, case_insert);
mutator_case!(c12t_remove_s2_c0p1, 2, [], 0, 1, case_remove);
mutator_case!(c12t_update_s2_c0p1, 2, [], 0, 1, case_update);

// native replay of a Kani counterexample (bin/vcheck replay): the generated test is included here
#[cfg(verif_playback)]
include!("/verif/work/k/playback/joblist_harness.rs");
