//! Kani contracts for the bracket-expression parser (property C04), injected as a child module of
//! yash-fnmatch/src/ast/parse.rs.  "quoted or backslash-escaped characters match only themselves":
//! a `PatternChar::Literal` inside a bracket expression is always a plain member of the set.
#![allow(dead_code, unused_imports)]
use super::*;
use crate::PatternChar::{self, Literal, Normal};

/// Symbolic letters made these harnesses run out of memory (moves of `BracketItem`, which carries
/// `String` payloads, are modelled byte-wise by CBMC); the members are therefore the fixed letters
/// `a` and `z` and only the pattern structure is explored.  Labelled bounded(concrete members).
fn letter(first: bool) -> char {
    if first { 'a' } else { 'z' }
}

fn is_char_item(item: &BracketItem, c: char) -> bool {
    matches!(item, BracketItem::Atom(BracketAtom::Char(x)) if *x == c)
}

// NOTE: harnesses that run `Bracket::parse` on a closed bracket expression (for the clause "quoted
// characters match only themselves inside a bracket expression": `[a\-z]`, `[a\]z]`, `[\!a]`) were
// written and had to be withdrawn: even with fully concrete input CBMC ran out of time (900 s) and memory
// on the `Vec<BracketItem>` pops and pushes of `make_range` (items carry `String` payloads).  That
// clause is therefore NOT checked; see DESIGN.md, finding F2.

/// an unclosed `[` is literal
#[kani::proof]
#[kani::unwind(8)]
fn c04q_unclosed_bracket_is_literal() {
    let x = letter(true);
    let p = [Normal('['), Normal(x)];
    match Atom::parse(p.into_iter()) {
        Some((atom, _)) => {
            assert!(atom == Atom::Char('['), "an unclosed [ is the literal character");
            std::mem::forget(atom);
        }
        None => assert!(false),
    }
}

// native replay of a Kani counterexample (bin/vcheck replay): the generated test is included here
#[cfg(verif_playback)]
include!("/verif/work/k/playback/fnmatch_parse_harness.rs");
