UNIT = {
    'name': 'varset',
    'property': 'C16',
    'crate': 'yash-env',
    'cfg': ['verif_map'],
    'inject': [('yash-env/src/variable.rs', 'harness.rs')],
    'anchors': [
        ('yash-env/src/variable.rs', r'pub fn unset<\'a>\('),
        ('yash-env/src/variable.rs', r'fn get_or_new_impl\(&mut self, name: String, scope: Scope\)'),
    ],
    'functions': [
        {'file': 'yash-env/src/variable.rs', 'item': 'VariableSet::unset / get / get_scalar / get_or_new_impl / push_context_impl (two concrete histories)'},
    ],
    'harnesses': {'quick': ['c16q_'], 'thorough': []},
    'min_harnesses': {'quick': 2, 'thorough': 2},
    'control_re': r'^c16x_',
    'complete_re': r'$^',
    'bound': 'two concrete histories over one variable name and three contexts',
    'jobs': {'quick': 2, 'thorough': 2},
    'harness_timeout': '900s',
    'timeout_s': {'quick': 2000, 'thorough': 2000},
    'assumptions': [],
}
