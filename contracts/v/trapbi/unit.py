# Unit trapbi: what the trap built-in asks of the trap table (kernel of C11).
TB = 'yash-builtin/src/trap.rs'
MOD_HEAD = '''    use vstd::prelude::*;
'''
A0 = 'old(env).traps.asked@'
A1 = 'final(env).traps.asked@'
UNIT = {
    'name': 'trapbi',
    'property': 'C11',
    'rlimit': 60,
    'verus_args': ['--edition=2024'],
    'vacuity_floor': 2,
    'controls': {TB + '::Command::execute': {'ensures': {'append': 'false'}}},
    'control_expect': ['execute'],
    'items': [
        ('@raw', 'pub mod tb {\n' + MOD_HEAD),
        ('@file', 'prelude.rs'),
        (TB, ['enum Command'], {'drop_derives': 'all'}),
        (TB, ['fn set_action'], {'ret': 'r', 'rewrites': ['strip-async'], 'vis': 'pub',
            'closures': {0: {'ret': 'e: Error', 'param_types': ['SetActionError'], 'ensures': ['e.cond == cond && e.field == field && e.cause == ErrorCause::SetAction(cause)']}},
            'ensures': [
                # one request for exactly this condition, action and override flag; a refusal comes back naming condition and operand
                'final(traps).asked@ == old(traps).asked@.push(Asked { cond, action, override_ignore, refused: match r { Ok(_) => None, Err(e) => Some(e.cause->SetAction_0) } })',
                'r matches Err(e) ==> e.cond == cond && e.field == field && e.cause is SetAction',
            ]}),
        (TB, ['impl Command', 'fn execute'], {'ret': 'r', 'rewrites': ['strip-async'],
            'attrs': ['#[verifier::loop_isolation(false)]'],
            'token_rewrites': [
                ('for ( cond , _field ) in conditions', 'for verif_cf in verif_itp: conditions'),
                ('for ( cond , field ) in conditions', 'for verif_cf in verif_it: conditions'),
            ],
            'ensures': [
                # printing sets nothing
                '!(self is SetAction) ==> ' + A1 + ' == ' + A0,
                # `trap action cond...`: one request per condition, in order, for exactly this action; an initially ignored signal
                # may be overridden exactly in an interactive shell
                'self matches Command::SetAction { action, conditions } ==> requests(' + A1 + ', ' + A0 + '.len() as int, conditions@, action, old(env).options.verif_interactive) && (forall|k: int| 0 <= k < ' + A0 + '.len() ==> #[trigger] ' + A1 + '[k] == ' + A0 + '[k])',
                # every refusal is reported, in order, with its condition and operand; no refusal: success
                'self matches Command::SetAction { action, conditions } ==> (match r { Ok(_) => refusals(' + A1 + ', ' + A0 + '.len() as int, conditions@, conditions@.len() as int).len() == 0, Err(errors) => err_ids(errors@) =~= refusals(' + A1 + ', ' + A0 + '.len() as int, conditions@, conditions@.len() as int) && errors@.len() > 0 })',
            ],
            'loops': {
                0: {'body_start': 'let (cond, _field) = verif_cf;', 'invariant': ['env.traps.asked@ == ' + A0]},
                1: {'body_start': 'let (cond, field) = verif_cf; let ghost verif_a0 = env.traps.asked@; let ghost verif_k = verif_it.index() as int;',
                    'body_end': 'proof { lemma_refusals_prefix(verif_a0, env.traps.asked@, ' + A0 + '.len() as int, conditions@, verif_k); }',
                    'invariant': [
                    'env.traps.asked@.len() == ' + A0 + '.len() + verif_it.index()',
                    'forall|k: int| 0 <= k < ' + A0 + '.len() ==> #[trigger] env.traps.asked@[k] == ' + A0 + '[k]',
                    'forall|k: int| 0 <= k < verif_it.index() ==> (#[trigger] env.traps.asked@[' + A0 + '.len() + k]).cond == conditions@[k].0 && env.traps.asked@[' + A0 + '.len() + k].action == action && env.traps.asked@[' + A0 + '.len() + k].override_ignore == override_ignore',
                    'override_ignore == old(env).options.verif_interactive',
                    'err_ids(errors@) =~= refusals(env.traps.asked@, ' + A0 + '.len() as int, conditions@, verif_it.index() as int)',
                ]},
            }}),
        ('@raw', '}\n'),
    ],
}
