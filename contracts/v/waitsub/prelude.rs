// ---------------------------------------------------------------------------
// Prelude of unit waitsub (property C13, object-level kernel): how the shell awaits a child
// (yash-env/src/lib.rs Env::wait_for_subshell, wait_for_subshell_to_halt, wait_for_subshell_to_finish,
// update_all_subshell_statuses).  The anchor "SIGCHLD internal handler installed before polling wait, then
// wait-for-signal loop": the order of the calls is what excludes a lost SIGCHLD; what is reported is what the system
// reported for that child; every status the system hands out reaches the job table.
//
// Hand-written model text (ASSUMED): the four things these functions call - enabling the internal SIGCHLD disposition,
// the system's wait(), the job table's update_status(), waiting for a signal - are opaque calls that append to a ghost
// log of the reduced Env.  Nothing is said about WHEN a child changes state (that is the schedule half of C13).
// ---------------------------------------------------------------------------
pub struct Errno(pub i32);
pub mod signal { #[derive(Clone, Copy, Debug, Eq, PartialEq)] pub struct Number(pub i32); }
#[derive(Clone, Copy)]
pub struct Pid(pub i32);
impl Pid { pub const ALL: Pid = Pid(-1); }
#[derive(Clone, Copy)]
pub struct SignalNumber(pub i32);
/// A monitor of the four kinds of call these functions make (ghost state, no quantifiers):
pub struct Mon {
    /// the internal SIGCHLD disposition is in place
    pub armed: bool,
    /// some wait() was asked while it was not
    pub unarmed_wait: bool,
    /// a status the system reported that the job table has not been told yet
    pub pending: Option<(Pid, ProcessState)>,
    /// a reported status was lost (overwritten by the next wait, or the job table was told something else)
    pub dropped: bool,
    /// the answer of the most recent wait(), with its target
    pub last_wait: Option<(Pid, std::result::Result<Option<(Pid, ProcessState)>, Errno>)>,
    /// what the job table was told last
    pub last_update: Option<(Pid, ProcessState)>,
    /// the shell slept for something else than SIGCHLD, or not right after a wait() that found nothing
    pub bad_sleep: bool,
    pub waits: nat,
}
pub trait SignalSystem { const SIGCHLD: SignalNumber; const SIGINT: SignalNumber; }
pub trait WaitForSignals {}
pub trait Wait {}
pub struct TrapSet { pub verif_opaque: u8 }
pub struct JobList { pub verif_opaque: u8 }
pub struct Env<S> { pub traps: TrapSet, pub jobs: JobList, pub system: S, pub mon: Ghost<Mon> }

// the four opaque calls, written as functions over the whole Env so that they can update the monitor (the code calls
// them as methods of its fields: rewrite rule tokens-to-helper)
#[verifier::external_body]
pub fn verif_enable_sigchld<S>(env: &mut Env<S>) -> (r: std::result::Result<(), Errno>)
    ensures final(env).mon@ == (Mon { armed: old(env).mon@.armed || r is Ok, ..old(env).mon@ })
{ unimplemented!() }
#[verifier::external_body]
pub fn verif_wait<S>(env: &mut Env<S>, target: Pid) -> (r: std::result::Result<Option<(Pid, ProcessState)>, Errno>)
    ensures final(env).mon@ == (Mon {
        unarmed_wait: old(env).mon@.unarmed_wait || !old(env).mon@.armed,
        dropped: old(env).mon@.dropped || old(env).mon@.pending is Some,
        pending: (match r { Ok(Some(p)) => Some(p), _ => None }),
        last_wait: Some((target, r)),
        waits: old(env).mon@.waits + 1,
        ..old(env).mon@ })
{ unimplemented!() }
#[verifier::external_body]
pub fn verif_update_status<S>(env: &mut Env<S>, pid: Pid, state: ProcessState)
    ensures final(env).mon@ == (Mon {
        dropped: old(env).mon@.dropped || old(env).mon@.pending != Some((pid, state)),
        pending: None,
        last_update: Some((pid, state)),
        ..old(env).mon@ })
{ unimplemented!() }
impl<S: SignalSystem> Env<S> {
    #[verifier::external_body]
    pub fn wait_for_signal(&mut self, signal: SignalNumber)
        ensures final(self).mon@ == (Mon {
            bad_sleep: old(self).mon@.bad_sleep || signal != S::SIGCHLD || old(self).mon@.pending is Some
                || !(old(self).mon@.last_wait matches Some(w) && w.1 == Ok::<Option<(Pid, ProcessState)>, Errno>(None)),
            ..old(self).mon@ })
    { unimplemented!() }
}
impl vstd::std_specs::convert::FromSpecImpl<ProcessResult> for ExitStatus {
    open spec fn obeys_from_spec() -> bool { true }
    open spec fn from_spec(r: ProcessResult) -> ExitStatus { exit_status_of(r) }
}
/// the exit status a finished child stands for: its own status when it exited, the status that stands for the signal when
/// it was stopped or killed (the real From<ProcessResult> for ExitStatus of yash-env/src/job.rs is verified against this)
pub open spec fn exit_status_of(r: ProcessResult) -> ExitStatus {
    match r {
        ProcessResult::Exited(s) => s,
        ProcessResult::Stopped(signal) => status_of_signal(signal),
        ProcessResult::Signaled { signal, core_dump } => status_of_signal(signal),
    }
}
impl vstd::std_specs::convert::TryFromSpecImpl<ProcessState> for ExitStatus {
    open spec fn obeys_try_from_spec() -> bool { true }
    open spec fn try_from_spec(state: ProcessState) -> std::result::Result<ExitStatus, RunningProcess> {
        match state { ProcessState::Halted(res) => Ok(exit_status_of(res)), ProcessState::Running => Err(RunningProcess) }
    }
}
/// yash-env/src/semantics.rs From<signal::Number> for ExitStatus (number + 0x180; uninterpreted here)
pub uninterp spec fn status_of_signal(n: signal::Number) -> ExitStatus;
impl From<signal::Number> for ExitStatus {
    #[verifier::external_body]
    fn from(n: signal::Number) -> (e: ExitStatus) ensures e == status_of_signal(n) { unimplemented!() }
}
impl vstd::std_specs::convert::FromSpecImpl<signal::Number> for ExitStatus {
    open spec fn obeys_from_spec() -> bool { true }
    open spec fn from_spec(n: signal::Number) -> ExitStatus { status_of_signal(n) }
}

/// nothing went wrong between two monitor states: no status was lost, no wait() ran unarmed, no sleep was out of place,
/// and no reported status is waiting to be forwarded
pub open spec fn clean(before: Mon, after: Mon) -> bool {
    &&& after.dropped == before.dropped
    &&& after.unarmed_wait == before.unarmed_wait
    &&& after.bad_sleep == before.bad_sleep
    &&& after.pending is None
    &&& (before.armed ==> after.armed)
}
