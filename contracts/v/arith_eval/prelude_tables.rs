// ---------------------------------------------------------------------------
// C operator table (ISO C 6.5, lowest to highest binding), written from the standard.
// Level numbers are those of the contract, chosen 1..13; only their order matters.
// ---------------------------------------------------------------------------
pub open spec fn c_level(op: Operator) -> int {
    match op {
        // delimiters never bind
        Operator::CloseParen | Operator::Colon => 0,
        // 6.5.16 assignment
        Operator::Equal | Operator::BarEqual | Operator::CaretEqual | Operator::AndEqual
        | Operator::LessLessEqual | Operator::GreaterGreaterEqual | Operator::PlusEqual
        | Operator::MinusEqual | Operator::AsteriskEqual | Operator::SlashEqual | Operator::PercentEqual => 1,
        // 6.5.15 conditional
        Operator::Question => 2,
        // 6.5.14 ||   6.5.13 &&
        Operator::BarBar => 3,
        Operator::AndAnd => 4,
        // 6.5.12 |   6.5.11 ^   6.5.10 &
        Operator::Bar => 5,
        Operator::Caret => 6,
        Operator::And => 7,
        // 6.5.9 equality
        Operator::EqualEqual | Operator::BangEqual => 8,
        // 6.5.8 relational
        Operator::Less | Operator::LessEqual | Operator::Greater | Operator::GreaterEqual => 9,
        // 6.5.7 shift
        Operator::LessLess | Operator::GreaterGreater => 10,
        // 6.5.6 additive
        Operator::Plus | Operator::Minus => 11,
        // 6.5.5 multiplicative
        Operator::Asterisk | Operator::Slash | Operator::Percent => 12,
        // 6.5.3 unary, 6.5.2 postfix, primary
        Operator::Tilde | Operator::Bang | Operator::PlusPlus | Operator::MinusMinus | Operator::OpenParen => 13,
    }
}

/// The binary operator a token spells, with C associativity (assignment: right; others: left).
pub open spec fn c_binary(op: Operator) -> Option<(BinaryOperator, Associativity)> {
    match op {
        Operator::Equal => Some((BinaryOperator::Assign, Associativity::Right)),
        Operator::BarEqual => Some((BinaryOperator::BitwiseOrAssign, Associativity::Right)),
        Operator::CaretEqual => Some((BinaryOperator::BitwiseXorAssign, Associativity::Right)),
        Operator::AndEqual => Some((BinaryOperator::BitwiseAndAssign, Associativity::Right)),
        Operator::LessLessEqual => Some((BinaryOperator::ShiftLeftAssign, Associativity::Right)),
        Operator::GreaterGreaterEqual => Some((BinaryOperator::ShiftRightAssign, Associativity::Right)),
        Operator::PlusEqual => Some((BinaryOperator::AddAssign, Associativity::Right)),
        Operator::MinusEqual => Some((BinaryOperator::SubtractAssign, Associativity::Right)),
        Operator::AsteriskEqual => Some((BinaryOperator::MultiplyAssign, Associativity::Right)),
        Operator::SlashEqual => Some((BinaryOperator::DivideAssign, Associativity::Right)),
        Operator::PercentEqual => Some((BinaryOperator::RemainderAssign, Associativity::Right)),
        Operator::BarBar => Some((BinaryOperator::LogicalOr, Associativity::Left)),
        Operator::AndAnd => Some((BinaryOperator::LogicalAnd, Associativity::Left)),
        Operator::Bar => Some((BinaryOperator::BitwiseOr, Associativity::Left)),
        Operator::Caret => Some((BinaryOperator::BitwiseXor, Associativity::Left)),
        Operator::And => Some((BinaryOperator::BitwiseAnd, Associativity::Left)),
        Operator::EqualEqual => Some((BinaryOperator::EqualTo, Associativity::Left)),
        Operator::BangEqual => Some((BinaryOperator::NotEqualTo, Associativity::Left)),
        Operator::Less => Some((BinaryOperator::LessThan, Associativity::Left)),
        Operator::LessEqual => Some((BinaryOperator::LessThanOrEqualTo, Associativity::Left)),
        Operator::Greater => Some((BinaryOperator::GreaterThan, Associativity::Left)),
        Operator::GreaterEqual => Some((BinaryOperator::GreaterThanOrEqualTo, Associativity::Left)),
        Operator::LessLess => Some((BinaryOperator::ShiftLeft, Associativity::Left)),
        Operator::GreaterGreater => Some((BinaryOperator::ShiftRight, Associativity::Left)),
        Operator::Plus => Some((BinaryOperator::Add, Associativity::Left)),
        Operator::Minus => Some((BinaryOperator::Subtract, Associativity::Left)),
        Operator::Asterisk => Some((BinaryOperator::Multiply, Associativity::Left)),
        Operator::Slash => Some((BinaryOperator::Divide, Associativity::Left)),
        Operator::Percent => Some((BinaryOperator::Remainder, Associativity::Left)),
        _ => None,
    }
}

pub open spec fn c_prefix(op: Operator) -> Option<PrefixOperator> {
    match op {
        Operator::PlusPlus => Some(PrefixOperator::Increment),
        Operator::MinusMinus => Some(PrefixOperator::Decrement),
        Operator::Plus => Some(PrefixOperator::NumericCoercion),
        Operator::Minus => Some(PrefixOperator::NumericNegation),
        Operator::Bang => Some(PrefixOperator::LogicalNegation),
        Operator::Tilde => Some(PrefixOperator::BitwiseNegation),
        _ => None,
    }
}

pub open spec fn c_postfix(op: Operator) -> Option<PostfixOperator> {
    match op {
        Operator::PlusPlus => Some(PostfixOperator::Increment),
        Operator::MinusMinus => Some(PostfixOperator::Decrement),
        _ => None,
    }
}
