# Unit assignone: one assignment (kernel of C16).
AS = 'yash-semantics/src/assign.rs'
MOD_HEAD = '''    use vstd::prelude::*;
'''
L0 = 'old(env).log@'
L1 = 'final(env).log@'
UNIT = {
    'name': 'assignone',
    'property': 'C16',
    'rlimit': 60,
    'verus_args': ['--edition=2024'],
    'vacuity_floor': 1,
    'controls': {AS + '::perform_assignment': {'ensures': {'append': 'false'}}},
    'control_expect': ['perform_assignment'],
    'items': [
        ('@raw', 'pub mod ao1 {\n' + MOD_HEAD),
        ('@file', 'prelude.rs'),
        (AS, ['fn perform_assignment'], {'ret': 'r', 'rewrites': ['strip-async'],
            'token_rewrites': [
                ('assign . name . clone ( )', 'verif_clone_string(&assign.name)', '*'),
                ('write ! ( xtrace . assigns ( ) , "{}={} " , yash_quote :: quoted ( & name ) , value . quote ( ) ) . unwrap ( ) ;', 'verif_trace(xtrace, &name, &value);'),
            ],
            'closures': {0: {'ret': 'e2: Error', 'param_types': ['AssignError'], 'requires': ['e.assigned_location is Some'], 'ensures': ['e2.cause is AssignReadOnly']}},
            'ensures': [
                # the value is expanded first, once; a failed expansion touches no variable
                L1 + '.len() > ' + L0 + '.len() && ' + L1 + '.subrange(0, ' + L0 + '.len() as int) =~= ' + L0 + ' && (' + L1 + '[' + L0 + '.len() as int] matches Ev::Expanded { value, ok } && value == assign.value.verif_id)',
                '(' + L1 + '[' + L0 + '.len() as int] matches Ev::Expanded { value, ok } && !ok) ==> r is Err && ' + L1 + '.len() == ' + L0 + '.len() + 1',
                # then the variable of exactly this name is asked for in exactly the caller's scope and assigned once; it is exported
                # exactly when the caller asked for it and the assignment succeeded; a refusal is an error and exports nothing
                '(' + L1 + '[' + L0 + '.len() as int] matches Ev::Expanded { value, ok } && ok) ==> ' + L1 + '.len() >= ' + L0 + '.len() + 3 '
                '&& ' + L1 + '[' + L0 + '.len() as int + 1] == (Ev::Requested { name: assign.name@, scope }) && ' + L1 + '[' + L0 + '.len() as int + 2] is Assigned '
                '&& (match ' + L1 + '[' + L0 + '.len() as int + 2] { Ev::Assigned { value, ok } => (ok ==> r is Ok && (if export { ' + L1 + '.len() == ' + L0 + '.len() + 4 && ' + L1 + '.last() == (Ev::Exported { on: true }) } else { ' + L1 + '.len() == ' + L0 + '.len() + 3 })) '
                '&& (!ok ==> r is Err && ' + L1 + '.len() == ' + L0 + '.len() + 3), _ => true })',
            ]}),
        ('@raw', '}\n'),
    ],
}
