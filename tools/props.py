"""Per-property configuration: which contract units decide which property, at which level."""

PROPS = {
    'C03': {
        'v_units': ['arith_eval'],
        'k_units': [],
        'level': 'proof',
        'explanation': (
            'Contract-based deductive verification (Verus/Z3) of the real functions of yash-arith/src/eval.rs and '
            'the operator tables of ast.rs, extracted byte-for-byte on every run. binary_result is proved to return the '
            'exact C value over the mathematical integers or an error exactly when that value is undefined or does not fit '
            'in i64 (all 29 operators, all i64 x i64, no bound); apply_prefix/apply_postfix/apply_binary are proved against '
            'a ghost view of the variable environment (exact value, exact store update, no effect on error); the '
            'precedence/associativity/spelling tables equal the C tables. Not decided here: eval()/parser structure '
            '(short-circuit slicing, RPN well-formedness), the tokenizer, and agreement of $((x)) with $(($x)) for '
            'non-decimal constants (expand_variable parses with an uninterpreted str::parse).'),
        'trusted_base': ['Verus 0.2026.09.13 + Z3 (bundled)', 'vstd specifications of i64::checked_add/sub/mul/div/rem, Option/Result combinators',
                         'rustc 1.98.1 front end used by Verus', '/verif/tools/vextract.py (extraction is checked verbatim against the source on every run)'],
        'assumptions': [
            'machine integers are related to mathematical integers through vstd\'s specs of checked_* (assumed by vstd)',
            'Env implementors satisfy the ghost-view contract spliced onto trait Env (get_variable/assign_variable); failure of either is a function of the state',
            'impl Display for Value prints the decimal text dec(i) (external; axiom_value_to_string)',
        ],
    },
    'C12': {
        'v_units': ['joblist'],
        'k_units': ['joblist'],
        'level': 'other',
        'explanation': (
            'Verus proves, for job tables of EVERY size, that JobList::insert / remove / update_status / set_current_job '
            're-establish the five-clause consistency statement of C12 (wf) and that no other job number changes, with the '
            'documented re-selection of current/previous job, from contracts on the real functions of yash-env/src/job.rs '
            '(extracted on every run; slab::Slab and std HashMap enter through assumed finite-map contracts). The two private '
            'selectors any_suspended_job_but_current / any_job_but_current are assumed in that proof; their contract and the '
            'job-id resolution (%%, %+, %-, %n) are checked by Kani on the real code for concrete table shapes with all '
            'contents symbolic (bounded: <= 3 slab slots quick, plus mutator cross-checks in the thorough tier). Level is '
            '"other" because the Kani part is bounded; the Verus part alone is an unbounded proof modulo the listed assumptions.'),
        'trusted_base': ['Verus 0.2026.09.13 + Z3', 'Kani 0.68.0 + CBMC 6.11 (CaDiCaL)', 'vstd HashMap/Entry and iterator specifications',
                         '/verif/tools/vextract.py, /verif/tools/kunit.py'],
        'assumptions': [
            'slab::Slab behaves as a finite map usize -> T with insert returning an unused key (assumed contract, prelude_slab.rs); key allocation order (dense numbering, restart at 0) is not modelled in the Verus unit',
            'Pid obeys vstd\'s hash key model (derived Hash/Eq on a newtype over i32): part of wf as a precondition',
            'libc::pid_t is i32 on this platform',
            'precondition of insert taken from the property quantifier: the pid is fresh or belongs to a job that is not alive',
        ],
    },
}
