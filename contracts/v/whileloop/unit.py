# Unit whileloop: how while / until loops react to break / continue levels (kernel of property C02).
WL = 'yash-semantics/src/command/compound_command/while_loop.rs'
SEM = 'yash-env/src/semantics.rs'
MOD_HEAD = '''    use vstd::prelude::*;
    use std::ops::ControlFlow::{self, Break, Continue};
    use std::ffi::c_int;
'''
ASYNC = {'rewrites': ['strip-async']}
LOG0 = 'old(self).env.verif_log@'
LOG1 = 'final(self).env.verif_log@'
UNIT = {
    'name': 'whileloop',
    'property': 'C02',
    'rlimit': 60,
    'verus_args': ['--edition=2024'],
    'vacuity_floor': 2,
    'items': [
        ('@raw', 'pub mod semantics { pub type Result<T = ()> = std::ops::ControlFlow<crate::wl::Divert, T>; }\n'),
        ('@raw', 'pub mod wl {\n' + MOD_HEAD + '    pub use crate::semantics::Result;\n'),
        (SEM, ['struct ExitStatus']),
        (SEM, ['enum Divert']),
        ('@file', 'prelude.rs'),
        ('@raw', 'pub mod while_loop {\n    use super::*;\n'),
        (WL, ['struct Loop'], {'pub_fields': True, 'vis': 'pub'}),
        (WL, ["impl<S: Runtime + 'static> Loop<'_, S>", 'fn iterate'], dict(ASYNC, ret='r',
            attrs=['#[verifier::exec_allows_no_decreases_clause]'],
            ensures=[
                # one run of the loop goes on as long as condition and body go on normally, and hands on the FIRST divert
                # that comes out of either, unchanged - none is swallowed
                'extends(' + LOG1 + ', ' + LOG0 + ')',
                'r is Break ==> ' + LOG1 + '.len() > ' + LOG0 + '.len() && ' + LOG1 + '.last() == r && quiet(' + LOG1 + ', ' + LOG0 + '.len() as int, ' + LOG1 + '.len() - 1)',
                'r is Continue ==> quiet(' + LOG1 + ', ' + LOG0 + '.len() as int, ' + LOG1 + '.len() as int) && ' + LOG1 + '.len() > ' + LOG0 + '.len() && ' + LOG1 + '.last() == r',
                # the status of the last command run in the body is recorded whenever the body has run - however it ended
                'body_status_recorded(final(self).exit_status, *old(self).env, old(self).exit_status, *final(self).env)',
                'final(self).env.verif_bodies@ >= old(self).env.verif_bodies@',
                'final(self).env.verif_last_is_body@ ==> final(self).env.verif_bodies@ > old(self).env.verif_bodies@ && final(self).env.exit_status == final(self).env.verif_last_body@',
                'final(self).env.verif_bodies@ == old(self).env.verif_bodies@ ==> final(self).env.verif_last_body@ == old(self).env.verif_last_body@',
            ],
            loops={0: {'invariant': [
                'self.env.verif_log@.len() >= ' + LOG0 + '.len()',
                'extends(self.env.verif_log@, ' + LOG0 + ')',
                'quiet(self.env.verif_log@, ' + LOG0 + '.len() as int, self.env.verif_log@.len() as int)',
                'body_status_recorded(self.exit_status, *old(self).env, old(self).exit_status, *self.env)', 'self.env.verif_bodies@ >= old(self).env.verif_bodies@',
                'self.env.verif_bodies@ == old(self).env.verif_bodies@ ==> self.env.verif_last_body@ == old(self).env.verif_last_body@',
            ], 'ensures': [
                'self.env.verif_bodies@ == old(self).env.verif_bodies@ ==> self.env.verif_last_body@ == old(self).env.verif_last_body@',
                'body_status_recorded(self.exit_status, *old(self).env, old(self).exit_status, *self.env)', 'self.env.verif_bodies@ >= old(self).env.verif_bodies@',
                '!self.env.verif_last_is_body@',
                'self.env.verif_log@.len() > ' + LOG0 + '.len()',
                'extends(self.env.verif_log@, ' + LOG0 + ')',
                'quiet(self.env.verif_log@, ' + LOG0 + '.len() as int, self.env.verif_log@.len() as int)',
            ]}})),
        (WL, ["impl<S: Runtime + 'static> Loop<'_, S>", 'fn execute'], dict(ASYNC, ret='r',
            attrs=['#[verifier::exec_allows_no_decreases_clause]'],
            ensures=[
                LOG1 + '.len() > ' + LOG0 + '.len() && extends(' + LOG1 + ', ' + LOG0 + ')',
                # the loop ends on the first result that is neither "went on" nor "continue (this loop)" - or on a false
                # condition - and what it hands on is that result with one break / continue level taken off
                'r == loop_reaction(' + LOG1 + '.last())',
                LOG1 + '.last() != ControlFlow::<Divert, ()>::Break(Divert::Continue { count: 0 })',
                # everything before that was "went on normally" or a continue of this very loop (which starts the next round)
                'quiet_or_continue(' + LOG1 + ', ' + LOG0 + '.len() as int, ' + LOG1 + '.len() - 1)',
                # C02: "a compound command's status is that of the last command it ran (zero if none)": when the loop ends
                # normally its status is the one the last execution of its body left, however that execution ended (not
                # constrained when a `break` in the CONDITION ended the loop)
                'r is Continue && !(!final(self).env.verif_last_is_body@ && ' + LOG1 + '.last() is Break) ==> body_status_recorded(final(self).exit_status, *old(self).env, old(self).exit_status, *final(self).env)',
            ],
            loops={0: {'invariant': [
                'self.env.verif_log@.len() >= ' + LOG0 + '.len()',
                'extends(self.env.verif_log@, ' + LOG0 + ')',
                'quiet_or_continue(self.env.verif_log@, ' + LOG0 + '.len() as int, self.env.verif_log@.len() as int)',
                'body_status_recorded(self.exit_status, *old(self).env, old(self).exit_status, *self.env)', 'self.env.verif_bodies@ >= old(self).env.verif_bodies@',
                'self.env.verif_bodies@ == old(self).env.verif_bodies@ ==> self.env.verif_last_body@ == old(self).env.verif_last_body@',
            ]}})),
        ('@raw', '}\n'),
        ('@raw', '}\n'),
    ],
}
