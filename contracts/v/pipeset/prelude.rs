// ---------------------------------------------------------------------------
// Prelude of unit pipeset (property C08, "open files" clause; the wiring half also serves the pipelines of C13/C14):
// the descriptors a multi-command pipeline opens in the PARENT shell (yash-semantics/src/command/pipeline.rs, PipeSet).
//
// Hand-written model text (ASSUMED): the descriptor table of the process as the system traits `Pipe`, `Close`, `Dup`
// present it.  `table()` maps every open descriptor to the open file description it refers to (an abstract
// identity); the real traits take `&self` (interior mutability), here `&mut self` so that the effect has a
// specification.
// ---------------------------------------------------------------------------
pub type RawFd = i32;
pub type RawErrno = i32;
pub struct FdFlag { pub verif_opaque: u8 }
/// placeholder for enumset::EnumSet (only `EnumSet::empty()` is used)
pub struct EnumSet<T> { pub verif_opaque: Option<T> }
impl<T> EnumSet<T> { pub fn empty() -> EnumSet<T> { EnumSet { verif_opaque: None } } }

pub trait Fds: Sized {
    spec fn table(&self) -> Map<Fd, int>;
    /// whether closing `fd` fails now (a function of the state; `PipeSet::shift` ignores such errors)
    spec fn close_fails(&self, fd: Fd) -> bool;
    /// POSIX pipe(): two descriptors that were not open, the lowest-numbered free ones, for one new pipe
    fn pipe(&mut self) -> (r: Result<(Fd, Fd), Errno>)
        ensures
            match r {
                Ok((reader, writer)) => reader != writer && !old(self).table().contains_key(reader) && !old(self).table().contains_key(writer)
                    && final(self).table().dom() == old(self).table().dom().insert(reader).insert(writer)
                    && (forall|fd: Fd| old(self).table().contains_key(fd) ==> final(self).table()[fd] == old(self).table()[fd]),
                Err(_) => final(self).table() == old(self).table(),
            },
            forall|fd: Fd| final(self).close_fails(fd) == old(self).close_fails(fd);
    fn close(&mut self, fd: Fd) -> (r: Result<(), Errno>)
        ensures
            r is Err <==> old(self).close_fails(fd),
            r is Ok ==> final(self).table() == old(self).table().remove(fd),
            r is Err ==> final(self).table() == old(self).table(),
            forall|fd2: Fd| final(self).close_fails(fd2) == old(self).close_fails(fd2);
    /// fcntl(F_DUPFD): the lowest free descriptor >= to_min now refers to the same open file description
    fn dup(&mut self, from: Fd, to_min: Fd, flags: EnumSet<FdFlag>) -> (r: Result<Fd, Errno>)
        ensures
            match r {
                Ok(new) => old(self).table().contains_key(from) && !old(self).table().contains_key(new) && new.0 >= to_min.0
                    && final(self).table() == old(self).table().insert(new, old(self).table()[from]),
                Err(_) => final(self).table() == old(self).table(),
            },
            forall|fd2: Fd| final(self).close_fails(fd2) == old(self).close_fails(fd2);
    /// dup2(): `to` now refers to the open file description of `from` (whatever `to` referred to is closed)
    fn dup2(&mut self, from: Fd, to: Fd) -> (r: Result<Fd, Errno>)
        ensures
            match r {
                Ok(new) => new == to && old(self).table().contains_key(from) && final(self).table() == old(self).table().insert(to, old(self).table()[from]),
                Err(_) => final(self).table() == old(self).table(),
            },
            forall|fd2: Fd| final(self).close_fails(fd2) == old(self).close_fails(fd2);
}
/// the same system seen through the other trait names the code uses as bounds
pub trait Pipe: Fds {}
pub trait Close: Fds {}
pub trait Dup: Fds {}

/// struct Env reduced to the one field the functions under contract use
pub struct Env<S> { pub system: S }

// derived PartialEq / Copy of Fd (ASSUMED structural)
impl vstd::std_specs::cmp::PartialEqSpecImpl for Fd {
    open spec fn obeys_eq_spec() -> bool { true }
    open spec fn eq_spec(&self, other: &Fd) -> bool { *self == *other }
}

impl PipeSet {
    /// the descriptors the pipe set is responsible for
    pub open spec fn held(&self) -> Set<Fd> {
        let a = match self.read_previous { Some(fd) => set![fd], None => Set::<Fd>::empty() };
        match self.next { Some((r, w)) => a.insert(r).insert(w), None => a }
    }
    pub open spec fn distinct(&self) -> bool {
        match self.next {
            Some((r, w)) => r != w && self.read_previous != Some(r) && self.read_previous != Some(w),
            None => true,
        }
    }
}
/// C08 ("... or open files") for a pipeline under construction: what is open in the parent is what was open before
/// the pipeline (`base`, untouched) plus exactly the descriptors the pipe set still holds
pub open spec fn psinv(ps: PipeSet, table: Map<Fd, int>, base: Map<Fd, int>) -> bool {
    &&& ps.distinct()
    &&& ps.held().disjoint(base.dom())
    &&& table.dom() =~= base.dom().union(ps.held())
    &&& forall|fd: Fd| #[trigger] base.contains_key(fd) ==> table[fd] == base[fd]
}
pub open spec fn no_close_failure<S: Fds>(system: S) -> bool { forall|fd: Fd| !system.close_fails(fd) }

// `assert_ne!` expands to a call of `assert_failed` on the failing branch: with `requires false` every run-time
// assertion of the extracted code becomes a proof obligation (the code must not panic).
#[verifier::external_type_specification]
pub struct ExAssertKind(core::panicking::AssertKind);
pub assume_specification<T: core::fmt::Debug + ?Sized, U: core::fmt::Debug + ?Sized>[ core::panicking::assert_failed::<T, U> ](
    kind: core::panicking::AssertKind, left: &T, right: &U, args: Option<core::fmt::Arguments<'_>>) -> !
    requires false;
