// `assert_eq!` expands to a call of `assert_failed` on the failing branch: with `requires false` every run-time
// assertion of the extracted code becomes a proof obligation (the code must not panic).
#[verifier::external_type_specification]
pub struct ExAssertKind(core::panicking::AssertKind);
pub assume_specification<T: core::fmt::Debug + ?Sized, U: core::fmt::Debug + ?Sized>[ core::panicking::assert_failed::<T, U> ](
    kind: core::panicking::AssertKind, left: &T, right: &U, args: Option<core::fmt::Arguments<'_>>) -> !
    requires false;
