# Unit fifo: the byte containers of the simulated file system (kernel of property C14: bytes written to a pipe
# reach the reader completely, exactly once and in order, for every payload size).
FB = 'yash-env/src/system/virtual/file_body.rs'
IO = 'yash-env/src/system/virtual/io.rs'
MOD_HEAD = '''    use vstd::prelude::*;
    use std::collections::HashMap;
    use std::collections::VecDeque;
    use std::rc::Rc;
'''
UNIT = {
    'name': 'fifo',
    'property': 'C14',
    'rlimit': 100,
    'crate_attrs': ['#![feature(allocator_api)]'],
    'verus_args': ['--edition=2024'],
    'controls': 'auto',
    'items': [
        ('@raw', 'pub mod stdax {\n' + MOD_HEAD),
        ('@file', 'prelude_std.rs'),
        ('@raw', '}\n'),
        ('@raw', 'pub mod fb {\n' + MOD_HEAD + '    use super::stdax::*;\n'),
        ('@broadcast', ['super::stdax::axiom_yielded_slice']),
        ('yash-env/src/system/errno.rs', ['type RawErrno']),
        ('yash-env/src/system/errno.rs', ['struct Errno']),
        ('@file', 'prelude_types.rs'),
        ('@raw', 'use Poll::{Pending, Ready};\n'),
        (FB, ['const PIPE_BUF']),
        (FB, ['const PIPE_SIZE']),
        (FB, ['enum FileBody'], {'drop_derives': True}),
        ('@file', 'prelude.rs'),
        (FB, ['impl FileBody', 'fn poll_read'], {'ret': 'r', 'rewrites': ['or-arm-split'],
            'attrs': ['#[verifier::loop_isolation(false)]'],
            # `for to in buffer` over a `&mut [u8]` is `buffer.iter_mut()` (std: IntoIterator for &mut [T]); vstd specifies the latter
            'token_rewrites': [('for to in buffer', 'for to in verif_it: buffer.iter_mut()')],
            'requires': ['old(self).fifo_wf()', 'old(buffer)@.len() <= usize::MAX', 'call_requires(get_waker, ())'],
            'ensures': [
                'final(self).fifo_wf() && final(self).same_ends(old(self))',
                'final(buffer)@.len() == old(buffer)@.len()',
                # nothing to read into: nothing happens
                'old(buffer)@.len() == 0 ==> r == Ready::<Result<usize, Errno>>(Ok(0)) && final(self).queue() == old(self).queue()',
                # an empty pipe with a writer blocks; an empty pipe without writers is end of file
                'old(buffer)@.len() > 0 && old(self).queue().len() == 0 && old(self)->Fifo_writers > 0 ==> r is Pending && final(self).queue() == old(self).queue()',
                'old(buffer)@.len() > 0 && old(self).queue().len() == 0 && old(self)->Fifo_writers == 0 ==> r == Ready::<Result<usize, Errno>>(Ok(0))',
                # otherwise the first min(len(buffer), len(queue)) bytes of the queue move into the buffer, in order, and leave the queue
                'old(buffer)@.len() > 0 && old(self).queue().len() > 0 ==> ({ let n = if old(buffer)@.len() <= old(self).queue().len() { old(buffer)@.len() } else { old(self).queue().len() }; '
                'r == Ready::<Result<usize, Errno>>(Ok(n as usize)) && final(self).queue() =~= old(self).queue().skip(n as int) '
                '&& forall|k: int| 0 <= k < n ==> final(buffer)@[k] == old(self).queue()[k] })',
                # no lost wake-up at the object: a reader that is told to wait has been registered with the waker it supplied,
                # and once bytes have been taken out every writer that was waiting for room has been woken
                'r is Pending ==> exists|w: Weak<Cell<Option<Waker>>>| #![trigger call_ensures(get_waker, (), w)] call_ensures(get_waker, (), w) && final(self)->Fifo_pending_read_wakers.registered().contains(w.0)',
                'old(buffer)@.len() > 0 && old(self).queue().len() > 0 ==> final(self)->Fifo_pending_write_wakers.registered() == Set::<u64>::empty()',
            ],
            'loops': {0: {
                'invariant': [
                    'verif_it.seq().len() == old(buffer)@.len()',
                    'count == verif_it.index()',
                    'verif_it.index() <= old(buffer)@.len()',
                    'count <= old(self).queue().len()',
                    'content@ =~= old(self).queue().skip(count as int)',
                    'forall|k: int| 0 <= k < count ==> *final(#[trigger] verif_it.seq()[k]) == old(self).queue()[k]',
                ],
            }},
        }),
        (FB, ['impl FileBody', 'fn poll_write'], {'ret': 'r', 'rewrites': ['or-arm-split'],
            'requires': ['old(self).fifo_wf()', 'call_requires(get_waker, ())'],
            'ensures': [
                'final(self).fifo_wf() && final(self).same_ends(old(self))',
                # no reader: broken pipe, nothing queued
                'old(self)->Fifo_readers == 0 ==> r == Ready::<Result<usize, Errno>>(Err(Errno::EPIPE)) && final(self).queue() == old(self).queue()',
                # it fits: everything is queued behind what is already there
                'old(self)->Fifo_readers > 0 && buffer@.len() <= PIPE_SIZE - old(self).queue().len() ==> r == Ready::<Result<usize, Errno>>(Ok(buffer@.len() as usize)) && final(self).queue() =~= old(self).queue() + buffer@',
                # it does not fit: a write of at most PIPE_BUF bytes is atomic (all or nothing) and a full pipe takes nothing: pending
                'old(self)->Fifo_readers > 0 && buffer@.len() > PIPE_SIZE - old(self).queue().len() && (old(self).queue().len() == PIPE_SIZE || buffer@.len() <= PIPE_BUF) ==> r is Pending && final(self).queue() == old(self).queue()',
                # a larger write queues exactly as much of its beginning as fits
                'old(self)->Fifo_readers > 0 && buffer@.len() > PIPE_SIZE - old(self).queue().len() && old(self).queue().len() < PIPE_SIZE && buffer@.len() > PIPE_BUF ==> '
                '({ let room = PIPE_SIZE - old(self).queue().len(); r == Ready::<Result<usize, Errno>>(Ok(room as usize)) && final(self).queue() =~= old(self).queue() + buffer@.subrange(0, room) })',
                # a writer that is told to wait has been registered; once bytes have been queued every waiting reader has been woken
                'r is Pending ==> exists|w: Weak<Cell<Option<Waker>>>| #![trigger call_ensures(get_waker, (), w)] call_ensures(get_waker, (), w) && final(self)->Fifo_pending_write_wakers.registered().contains(w.0)',
                'r matches Ready(Ok(_)) ==> final(self)->Fifo_pending_read_wakers.registered() == Set::<u64>::empty()',
            ],
        }),
        (FB, ['impl FileBody', 'fn is_ready_for_reading'], {'ret': 'r', 'requires': ['self.fifo_wf()'], 'ensures': [
            # ready exactly when a read of a non-empty buffer would not block
            'r == (self->Fifo_writers == 0 || self.queue().len() > 0)']}),
        (FB, ['impl FileBody', 'fn is_ready_for_writing'], {'ret': 'r', 'requires': ['self.fifo_wf()'], 'ensures': [
            # ready exactly when a write of up to PIPE_BUF bytes would not block
            'r == (self->Fifo_readers == 0 || PIPE_SIZE - self.queue().len() >= PIPE_BUF)']}),
        (FB, ['impl FileBody', 'fn open'], {'requires': ['old(self).fifo_wf()', 'old(self)->Fifo_readers < usize::MAX && old(self)->Fifo_writers < usize::MAX'], 'ensures': [
            'final(self).fifo_wf() && final(self).queue() == old(self).queue()',
            'final(self)->Fifo_readers == old(self)->Fifo_readers + (if is_readable { 1int } else { 0int })',
            'final(self)->Fifo_writers == old(self)->Fifo_writers + (if is_writable { 1int } else { 0int })']}),
        (FB, ['impl FileBody', 'fn close'], {'requires': ['old(self).fifo_wf()', 'is_readable ==> old(self)->Fifo_readers > 0', 'is_writable ==> old(self)->Fifo_writers > 0'], 'ensures': [
            # closing an end never touches the bytes in flight
            'final(self).fifo_wf() && final(self).queue() == old(self).queue()',
            'final(self)->Fifo_readers == old(self)->Fifo_readers - (if is_readable { 1int } else { 0int })',
            'final(self)->Fifo_writers == old(self)->Fifo_writers - (if is_writable { 1int } else { 0int })']}),
        ('@file', 'prelude_ofd.rs'),
        (IO, ['impl OpenFileDescription', 'fn poll_write_full'], {'ret': 'r',
            'token_rewrites': [('self.inode.borrow().body.r#type() == FileType::Fifo', 'self.verif_is_fifo()')],
            'requires': ['*old(bytes_written) <= buffer@.len()', 'buffer@.len() <= usize::MAX', 'forall|g: &mut F| call_requires(*g, ())'],
            'ensures': [
                # whatever the outcome, what has been queued so far is exactly buffer[start .. *bytes_written], in order
                '*old(bytes_written) <= *final(bytes_written) <= buffer@.len()',
                'final(self).queue() =~= old(self).queue() + buffer@.subrange(*old(bytes_written) as int, *final(bytes_written) as int)',
                # a successful return reports the running total
                'r matches Poll::Ready(Ok(k)) ==> k == *final(bytes_written)',
                # an error is reported only if nothing at all has been transferred
                'r matches Poll::Ready(Err(_)) ==> *final(bytes_written) == 0',
            ],
            'loops': {0: {
                'invariant': [
                    '*old(bytes_written) <= *bytes_written <= buffer@.len() <= usize::MAX',
                    'forall|g: &mut F| call_requires(*g, ())',
                    'self.queue() =~= old(self).queue() + buffer@.subrange(*old(bytes_written) as int, *bytes_written as int)',
                    'self.is_fifo() == old(self).is_fifo() && self.is_nonblocking == old(self).is_nonblocking',
                ],
                'decreases': ['buffer@.len() - *bytes_written'],
            }},
        }),
        ('@raw', '}\n'),
    ],
}
