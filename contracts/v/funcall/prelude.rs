// ---------------------------------------------------------------------------
// Prelude of unit funcall (properties C02 / C16, kernel): calling a function
// (yash-semantics/src/command/simple_command/function.rs execute_function_body).
// C02 "`return` leaves only the innermost function": a Return divert that comes out of the body ends THIS call -
// the caller goes on normally, with the exit status the return carried - and every other divert (break / continue
// beyond the function, exit, interrupt) is handed on unchanged.  C16 "locals and a function's positional parameters
// vanish at return": the body runs in a regular variable context of its own whose positional parameters are the
// fields of the call, pushed on top of what the caller had and gone afterwards.
//
// Hand-written model text (ASSUMED): executing the body is an opaque call that records the stack of variable contexts
// it ran with; RAII of the context guard is assumed in the contract of Env::push_context (Verus does not model
// destructors): while the guard lives the context is on top; when it goes away the topmost context has been popped and
// the rest is as the guard left it.  Await points are dropped.
//
// Added: the two executors execute_function (function.rs) and execute_external_utility (external.rs).  C09 "the
// redirections of a command affect only that command": they are performed first, under a RedirGuard (RAII ASSUMED in the
// contract of RedirGuard::new: when the guard goes away the redirections in effect are those of before), a failed
// redirection is handled and nothing else happens; C16: the assignments are made, exported, in a VOLATILE context on top
// of the caller's contexts with the redirections in effect, and that context is gone afterwards; C02: the function body /
// the utility runs exactly once, after both, and only if both succeeded.
// ---------------------------------------------------------------------------
pub assume_specification<B, C>[ <ControlFlow<B, C> as core::ops::Try>::branch ](cf: ControlFlow<B, C>) -> (r: ControlFlow<<ControlFlow<B, C> as core::ops::Try>::Residual, <ControlFlow<B, C> as core::ops::Try>::Output>)
    ensures match cf { ControlFlow::Continue(c) => r == ControlFlow::<ControlFlow<B, core::convert::Infallible>, C>::Continue(c), ControlFlow::Break(b) => r == ControlFlow::<ControlFlow<B, core::convert::Infallible>, C>::Break(ControlFlow::Break(b)) };
pub assume_specification<B, C>[ <ControlFlow<B, C> as core::ops::FromResidual<ControlFlow<B, core::convert::Infallible>>>::from_residual ](res: ControlFlow<B, core::convert::Infallible>) -> (r: ControlFlow<B, C>)
    ensures res matches ControlFlow::Break(b) ==> r == ControlFlow::<B, C>::Break(b);
pub struct ExitStatus(pub i32);
pub enum Divert { Continue { count: usize }, Break { count: usize }, Return(Option<ExitStatus>), Interrupt(Option<ExitStatus>), Exit(Option<ExitStatus>), Abort(Option<ExitStatus>) }
pub type Result<T = ()> = ControlFlow<Divert, T>;
pub struct Field { pub value: String, pub origin: Location, pub verif_id: int }
pub struct PositionalParams { pub verif_fields: Seq<int> }
impl PositionalParams {
    #[verifier::external_body]
    pub fn from_fields(fields: Vec<Field>) -> (r: PositionalParams)
        ensures r.verif_fields == Seq::new(fields@.len(), |i: int| fields@[i].verif_id)
    { unimplemented!() }
}
pub enum Context { Regular { positional_params: PositionalParams }, Volatile }
pub struct Body { pub verif_id: int }
pub struct Function<S> { pub body: Rc<Body>, pub verif_s: core::marker::PhantomData<S> }
/// what the body ran with
pub struct BodyRun { pub contexts: Seq<Context>, pub redirs: Seq<int>, pub result: Result, pub status_after: ExitStatus }
/// one call of RedirGuard::perform_redirs: which redirections, and whether all of them succeeded
pub struct RCall { pub ids: Seq<int>, pub ok: bool }
/// one call of perform_assignments (simple_command.rs; unit simplecmd): what was in place when it was called
pub struct ACall { pub contexts: Seq<Context>, pub redirs: Seq<int>, pub export: bool, pub ids: Seq<int>, pub ok: bool }
/// one external utility started (or looked for): what was in place, what it was given
pub struct Started { pub contexts: Seq<Context>, pub redirs: Seq<int>, pub fields: Seq<int>, pub result: Result<ExitStatus> }
pub struct OptionSet { pub verif_opaque: u8 }
pub struct Env<S> { pub exit_status: ExitStatus, pub options: OptionSet, pub verif_contexts: Ghost<Seq<Context>>, pub verif_runs: Ghost<Seq<BodyRun>>,
    /// the redirections in effect (identities, in the order they were performed)
    pub verif_redirs: Ghost<Seq<int>>,
    pub verif_rcalls: Ghost<Seq<RCall>>, pub verif_acalls: Ghost<Seq<ACall>>, pub verif_started: Ghost<Seq<Started>>,
    /// errors handled (reported) / "not found" reports printed
    pub verif_handled: Ghost<nat>, pub verif_not_found: Ghost<nat>,
    pub system: S }
/// everything but the contexts, the redirections in effect and `$?` is the same
pub open spec fn same_logs<S>(a: Env<S>, b: Env<S>) -> bool {
    a.verif_runs@ == b.verif_runs@ && a.verif_rcalls@ == b.verif_rcalls@ && a.verif_acalls@ == b.verif_acalls@ && a.verif_started@ == b.verif_started@
    && a.verif_handled@ == b.verif_handled@ && a.verif_not_found@ == b.verif_not_found@
}
pub open spec fn same_place<S>(a: Env<S>, b: Env<S>) -> bool { a.verif_contexts@ == b.verif_contexts@ && a.verif_redirs@ == b.verif_redirs@ }
pub struct EnvContextGuard<'a, S> { pub env: &'a mut Env<S> }
impl<S> Env<S> {
    /// yash-env/src/variable/guard.rs Env::push_context + the Drop impl of the guard (ASSUMED as a whole, see above)
    #[verifier::external_body]
    pub fn push_context(&mut self, context: Context) -> (g: EnvContextGuard<'_, S>)
        ensures
            g.env.verif_contexts@ == old(self).verif_contexts@.push(context), g.env.exit_status == old(self).exit_status,
            same_logs(*g.env, *old(self)), g.env.verif_redirs@ == old(self).verif_redirs@,
            final(self).verif_contexts@.len() + 1 == final(g.env).verif_contexts@.len(),
            forall|i: int| 0 <= i < final(self).verif_contexts@.len() ==> #[trigger] final(self).verif_contexts@[i] == final(g.env).verif_contexts@[i],
            final(self).exit_status == final(g.env).exit_status, same_logs(*final(self), *final(g.env)), final(self).verif_redirs@ == final(g.env).verif_redirs@
    { unimplemented!() }
}
impl Body {
    #[verifier::external_body]
    pub fn execute<S>(&self, env: &mut Env<S>) -> (r: Result)
        ensures final(env).verif_runs@ == old(env).verif_runs@.push(BodyRun { contexts: old(env).verif_contexts@, redirs: old(env).verif_redirs@, result: r, status_after: final(env).exit_status }),
            same_place(*final(env), *old(env)),
            final(env).verif_rcalls@ == old(env).verif_rcalls@, final(env).verif_acalls@ == old(env).verif_acalls@, final(env).verif_started@ == old(env).verif_started@,
            final(env).verif_handled@ == old(env).verif_handled@, final(env).verif_not_found@ == old(env).verif_not_found@
    { unimplemented!() }
}
/// the hook some callers pass to prepare the environment (a function pointer returning a boxed future in the code)
pub struct EnvPrepHook<S> { pub verif_s: core::marker::PhantomData<S> }
impl<S> EnvPrepHook<S> {
    #[verifier::external_body]
    pub fn call(&self, env: &mut Env<S>)
        ensures same_place(*final(env), *old(env)), same_logs(*final(env), *old(env))
    { unimplemented!() }
}
// ---- the executors' surroundings ----
pub trait Runtime {}
pub struct Redir { pub verif_id: int }
pub struct Assign { pub verif_id: int }
pub struct XTrace { pub verif_opaque: u8 }
pub struct RedirError { pub verif_opaque: u8 }
pub struct CString { pub verif_opaque: u8 }
pub open spec fn redir_ids(s: Seq<Redir>) -> Seq<int> { Seq::new(s.len(), |i: int| s[i].verif_id) }
pub open spec fn assign_ids(s: Seq<Assign>) -> Seq<int> { Seq::new(s.len(), |i: int| s[i].verif_id) }
pub open spec fn field_ids(s: Seq<Field>) -> Seq<int> { Seq::new(s.len(), |i: int| s[i].verif_id) }
impl XTrace {
    #[verifier::external_body]
    pub fn from_options(options: &OptionSet) -> (r: Option<XTrace>) { unimplemented!() }
}
#[verifier::external_body]
pub fn verif_as_mut(x: &mut Option<XTrace>) -> (r: Option<&mut XTrace>) { x.as_mut() }
#[verifier::external_body]
pub fn trace_fields(xtrace: Option<&mut XTrace>, fields: &Vec<Field>) { unimplemented!() }
#[verifier::external_body]
pub fn print<S>(env: &mut Env<S>, xtrace: Option<XTrace>)
    ensures same_place(*final(env), *old(env)), same_logs(*final(env), *old(env)), final(env).exit_status == old(env).exit_status
{ unimplemented!() }
pub struct RedirGuard<'e, S> { pub env: &'e mut Env<S> }
impl<'e, S> RedirGuard<'e, S> {
    /// yash-semantics/src/redir.rs RedirGuard::new + its Drop impl (unit redir verifies both bodies against the descriptor
    /// table; here RAII is ASSUMED as a whole): when the guard goes away the redirections in effect are those of before
    #[verifier::external_body]
    pub fn new(env: &'e mut Env<S>) -> (g: RedirGuard<'e, S>)
        ensures
            same_place(*g.env, *old(env)), same_logs(*g.env, *old(env)), g.env.exit_status == old(env).exit_status,
            final(env).verif_redirs@ == old(env).verif_redirs@,
            final(env).verif_contexts@ == final(g.env).verif_contexts@, final(env).exit_status == final(g.env).exit_status,
            same_logs(*final(env), *final(g.env))
    { unimplemented!() }
    /// RedirGuard::perform_redirs: all the redirections in order, stopping at the first failure (the ones performed stay
    /// in effect until the guard goes away)
    #[verifier::external_body]
    pub fn perform_redirs(&mut self, redirs: &[Redir], xtrace: Option<&mut XTrace>) -> (r: std::result::Result<Option<ExitStatus>, RedirError>)
        ensures
            // the guard goes on holding the reference it was made with
            mut_ref_future(final(self).env) == mut_ref_future(old(self).env),
            final(self).env.verif_rcalls@ == old(self).env.verif_rcalls@.push(RCall { ids: redir_ids(redirs@), ok: r is Ok }),
            r is Ok ==> final(self).env.verif_redirs@ == old(self).env.verif_redirs@ + redir_ids(redirs@),
            final(self).env.verif_contexts@ == old(self).env.verif_contexts@,
            final(self).env.verif_runs@ == old(self).env.verif_runs@, final(self).env.verif_acalls@ == old(self).env.verif_acalls@,
            final(self).env.verif_started@ == old(self).env.verif_started@, final(self).env.verif_handled@ == old(self).env.verif_handled@,
            final(self).env.verif_not_found@ == old(self).env.verif_not_found@
    { unimplemented!() }
}
impl RedirError {
    /// handle.rs (unit errhandle): reports, sets `$?`, lets the caller go on
    #[verifier::external_body]
    pub fn handle<S>(&self, env: &mut Env<S>) -> (r: Result)
        ensures same_place(*final(env), *old(env)), final(env).verif_handled@ == old(env).verif_handled@ + 1,
            final(env).verif_runs@ == old(env).verif_runs@, final(env).verif_rcalls@ == old(env).verif_rcalls@, final(env).verif_acalls@ == old(env).verif_acalls@,
            final(env).verif_started@ == old(env).verif_started@, final(env).verif_not_found@ == old(env).verif_not_found@
    { unimplemented!() }
}
/// simple_command.rs perform_assignments (unit simplecmd): opaque here, what was in place is recorded
#[verifier::external_body]
pub fn perform_assignments<S>(env: &mut Env<S>, assigns: &[Assign], export: bool, xtrace: Option<&mut XTrace>) -> (r: Result<Option<ExitStatus>>)
    ensures same_place(*final(env), *old(env)),
        final(env).verif_acalls@ == old(env).verif_acalls@.push(ACall { contexts: old(env).verif_contexts@, redirs: old(env).verif_redirs@, export, ids: assign_ids(assigns@), ok: r is Continue }),
        final(env).verif_runs@ == old(env).verif_runs@, final(env).verif_rcalls@ == old(env).verif_rcalls@,
        final(env).verif_started@ == old(env).verif_started@, final(env).verif_handled@ == old(env).verif_handled@, final(env).verif_not_found@ == old(env).verif_not_found@
{ unimplemented!() }

// ---- external.rs ----
#[verifier::external_body]
pub fn verif_has_slash(s: &String) -> (r: bool) { s.contains('/') }
#[verifier::external_body]
pub fn verif_cstring(s: &String) -> (r: Option<CString>) { unimplemented!() }
/// crate::command::search::search_path: a look-up, nothing of the monitor changes
#[verifier::external_body]
pub fn search_path<S>(env: &mut Env<S>, name: &String) -> (r: Option<CString>)
    ensures *final(env) == *old(env)
{ unimplemented!() }
/// external.rs start_external_utility_in_subshell_and_wait: opaque; what was in place and what it got is recorded
#[verifier::external_body]
pub fn start_external_utility_in_subshell_and_wait<S>(env: &mut Env<S>, path: CString, fields: Vec<Field>) -> (r: Result<ExitStatus>)
    ensures same_place(*final(env), *old(env)), final(env).exit_status == old(env).exit_status,
        final(env).verif_started@ == old(env).verif_started@.push(Started { contexts: old(env).verif_contexts@, redirs: old(env).verif_redirs@, fields: field_ids(fields@), result: r }),
        final(env).verif_runs@ == old(env).verif_runs@, final(env).verif_rcalls@ == old(env).verif_rcalls@, final(env).verif_acalls@ == old(env).verif_acalls@,
        final(env).verif_handled@ == old(env).verif_handled@, final(env).verif_not_found@ == old(env).verif_not_found@
{ unimplemented!() }
pub struct Location { pub verif_opaque: u8 }
pub struct Message { pub verif_opaque: u8 }
#[verifier::external_body]
pub fn verif_msg(s: &String) -> Message { unimplemented!() }
#[verifier::external_body]
pub fn print_error<S>(env: &mut Env<S>, title: Message, annotation: Message, location: &Location)
    ensures same_place(*final(env), *old(env)), final(env).exit_status == old(env).exit_status, final(env).verif_not_found@ == old(env).verif_not_found@ + 1,
        final(env).verif_runs@ == old(env).verif_runs@, final(env).verif_rcalls@ == old(env).verif_rcalls@, final(env).verif_acalls@ == old(env).verif_acalls@,
        final(env).verif_started@ == old(env).verif_started@, final(env).verif_handled@ == old(env).verif_handled@
{ unimplemented!() }
