# Unit aliaselig: which token an alias replaces, and the recursion guard (kernel of property C17).
PC = 'yash-syntax/src/parser/core.rs'
LC = 'yash-syntax/src/parser/lex/core.rs'
SRC = 'yash-env/src/source.rs'
MOD_HEAD = '''    use vstd::prelude::*;
    use std::rc::Rc;
'''
UNIT = {
    'name': 'aliaselig',
    'property': 'C17',
    'rlimit': 60,
    'verus_args': ['--edition=2024'],
    'vacuity_floor': 2,
    'items': [
        ('@raw', 'pub mod ae {\n' + MOD_HEAD),
        (LC, ['enum TokenId'], {'drop_derives': 'all'}),
        (LC, ['struct Token'], {'drop_derives': 'all'}),
        ('@raw', 'pub use TokenId::*;\n'),
        (PC, ['enum Rec'], {'drop_derives': 'all'}),
        ('@file', 'prelude.rs'),
        (SRC, ['impl Source', 'fn is_alias_for'], {'ret': 'r',
            'token_rewrites': [('alias . name == name', 'verif_name_eq(&alias.name, name)')],
            'ensures': ['r == in_alias_chain(*self, name@)'],
            'decreases': ['*self']}),
        (PC, ["impl<'a, 'b> Parser<'a, 'b>", 'fn substitute_alias'], {'ret': 'r', 'rewrites': ['let-chain-nest'],
            'wrapper': "impl<'a, 'b, G: Glossary> Parser<'a, 'b, G>",
            'ensures': [
                # exactly the eligible tokens are replaced ...
                'r is AliasSubstituted <==> eligible(old(self).aliases, &*old(self).lexer, token, is_command_name)',
                # ... by the alias of that name, at the position of the token, once
                'r is AliasSubstituted ==> final(self).lexer.verif_log@ == old(self).lexer.verif_log@.push((token.index, old(self).aliases.aliases()[token.word.literal()->0]))',
                # every other token is handed back as it is and the input is not touched
                'r matches Rec::Parsed(t) ==> t == token && final(self).lexer.verif_log@ == old(self).lexer.verif_log@',
            ]}),
        ('@raw', '}\n'),
    ],
}
