// ---------------------------------------------------------------------------
// Reference parser of shell patterns, written from POSIX XCU 2.13.1 (pattern matching notation) and
// XBD 9.3.5 (bracket expressions), over the sequence of pattern characters that remain to be read.
//   * `?` `*` `[` are special only when unquoted (PatternChar::Normal); a quoted character (Literal) is a
//     plain character everywhere: "quoted or backslash-escaped characters match only themselves";
//   * inside a bracket expression, `]` closes it unless it is the first member, a leading `!` (or `^`)
//     complements it, `[.` `[=` `[:` open an inner expression, and `member - member` is a range where the
//     hyphen is unquoted; everything else is a member;
//   * an unclosed `[` is a literal character.
// ---------------------------------------------------------------------------

/// abstract bracket item: a single member or a range of two members
pub enum RItem { Atom(BracketAtom), Range(BracketAtom, BracketAtom) }

pub open spec fn abs_item(i: BracketItem) -> RItem {
    match i { BracketItem::Atom(a) => RItem::Atom(a), BracketItem::Range(r) => RItem::Range(r@.start, r@.end) }
}
pub open spec fn abs_items(s: Seq<BracketItem>) -> Seq<RItem> { s.map_values(|i: BracketItem| abs_item(i)) }

/// what `make_range` does to the abstract items (XBD 9.3.5: start - end), quoting aside
pub open spec fn fold3(s: Seq<RItem>) -> Seq<RItem> {
    let n = s.len() as int;
    if n >= 3 && s[n - 1] is Atom && s[n - 2] == RItem::Atom(BracketAtom::Char('-')) && s[n - 3] is Atom {
        s.subrange(0, n - 3).push(RItem::Range(s[n - 3]->Atom_0, s[n - 1]->Atom_0))
    } else { s }
}

/// state of the reference parser inside a bracket expression
pub struct RState {
    pub complement: bool,
    pub items: Seq<RItem>,
    /// the last item is an UNQUOTED hyphen (the only thing that can act as the range operator)
    pub last_is_op: bool,
}
/// the reference state that corresponds to what the real parser holds: its items, and whether the last one is an
/// unquoted hyphen (`quoted`: the real parser's flag "the last item is a quoted hyphen")
pub open spec fn st_of(complement: bool, items: Seq<BracketItem>, quoted: bool) -> RState {
    RState { complement, items: abs_items(items), last_is_op: items.len() > 0 && is_hyphen(items.last()) && !quoted }
}
pub open spec fn rinit() -> RState { st_of(false, Seq::empty(), false) }

/// one member `x` arrives: pushing it and (unless the previous item is a quoted hyphen) running `make_range` is
/// what the reference parser does with it
pub proof fn lemma_member(c: bool, items0: Seq<BracketItem>, q0: bool, x: BracketItem, is_op: bool, q1: bool, items1: Seq<BracketItem>)
    requires
        x is Atom,
        is_hyphen(x) ==> is_op == !q1,
        !is_hyphen(x) ==> !is_op,
        q0 ==> items1 == items0.push(x),
        !q0 ==> abs_items(items1) =~= fold3(abs_items(items0.push(x))),
    ensures
        rpush(st_of(c, items0, q0), abs_item(x), is_op) == st_of(c, items1, q1),
{
    let st0 = st_of(c, items0, q0);
    let st1 = rpush(st0, abs_item(x), is_op);
    let pushed = items0.push(x);
    let n0 = items0.len() as int;
    assert(abs_items(pushed) =~= abs_items(items0).push(abs_item(x)));
    if q0 {
        assert(!st0.last_is_op);
        assert(st1.items =~= abs_items(items1));
        assert(items1.last() == x);
    } else {
        let a = abs_items(pushed);
        if n0 >= 2 && st0.last_is_op && abs_items(items0)[n0 - 2] is Atom {
            assert(a[n0] == abs_item(x));
            assert(a[n0 - 1] == abs_item(items0[n0 - 1]));
            assert(a[n0 - 2] == abs_item(items0[n0 - 2]));
            assert(fold3(a) =~= st1.items);
            assert(abs_items(items1).last() is Range);
            assert(abs_items(items1).last() == abs_item(items1.last()));
        } else {
            if n0 >= 1 { assert(a[n0 - 1] == abs_item(items0[n0 - 1])); }
            if n0 >= 2 { assert(a[n0 - 2] == abs_item(items0[n0 - 2])); }
            assert(a[n0] == abs_item(x));
            assert(fold3(a) =~= a);
            assert(st1.items =~= abs_items(items1));
            assert(items1.len() == n0 + 1);
            assert(abs_items(items1)[n0] == abs_item(items1[n0]));
            assert(abs_item(items1.last()) == abs_item(x));
        }
    }
    assert(st1.items =~= st_of(c, items1, q1).items);
}


/// a new member arrives
pub open spec fn rpush(st: RState, item: RItem, is_op: bool) -> RState {
    let n = st.items.len() as int;
    if n >= 2 && item is Atom && st.last_is_op && st.items[n - 2] is Atom {
        RState { complement: st.complement, items: st.items.subrange(0, n - 2).push(RItem::Range(st.items[n - 2]->Atom_0, item->Atom_0)), last_is_op: false }
    } else {
        RState { complement: st.complement, items: st.items.push(item), last_is_op: is_op }
    }
}

/// `lemma_member` for whichever member was pushed (the member is recognised by the term `items0.push(x)`)
pub proof fn lemma_member_all(c: bool, items0: Seq<BracketItem>, q0: bool, is_op: bool, q1: bool, items1: Seq<BracketItem>)
    ensures
        forall|x: BracketItem| #![trigger items0.push(x)]
            (x is Atom && (is_hyphen(x) ==> is_op == !q1) && (!is_hyphen(x) ==> !is_op)
                && (q0 ==> items1 == items0.push(x)) && (!q0 ==> abs_items(items1) =~= fold3(abs_items(items0.push(x)))))
            ==> rpush(st_of(c, items0, q0), abs_item(x), is_op) == st_of(c, items1, q1),
{
    assert forall|x: BracketItem| #![trigger items0.push(x)]
        (x is Atom && (is_hyphen(x) ==> is_op == !q1) && (!is_hyphen(x) ==> !is_op)
            && (q0 ==> items1 == items0.push(x)) && (!q0 ==> abs_items(items1) =~= fold3(abs_items(items0.push(x)))))
        implies rpush(st_of(c, items0, q0), abs_item(x), is_op) == st_of(c, items1, q1) by {
        lemma_member(c, items0, q0, x, is_op, q1, items1);
    }
}

// ---- inner expressions `[.x.]` `[=x=]` `[:x:]` (XBD 9.3.5 items 4-6) -------------------------------------------
// After the opening `[` and the delimiter character d (one of . = :), the expression extends to the FIRST
// occurrence of `d]` (both unquoted); what lies between is its content, taken literally.  Without such a `d]`
// there is no inner expression (and the `[` is an ordinary member of the enclosing bracket expression).

use super::itax::string_of;
/// the pair `d]` sits at positions k, k+1 of t
pub open spec fn closes_at(t: Seq<PatternChar>, d: char, k: int) -> bool {
    0 <= k && k + 1 < t.len() && t[k] == PatternChar::Normal(d) && t[k + 1] == PatternChar::Normal(']')
}
pub open spec fn has_close(t: Seq<PatternChar>, d: char) -> bool { exists|k: int| closes_at(t, d, k) }
/// the first such position
pub open spec fn first_close(t: Seq<PatternChar>, d: char) -> int {
    choose|k: int| closes_at(t, d, k) && forall|j: int| 0 <= j < k ==> !closes_at(t, d, j)
}
pub open spec fn inner_content(t: Seq<PatternChar>, k: int) -> Seq<char> {
    t.subrange(0, k).map_values(|pc: PatternChar| pc.char_value_spec())
}
pub open spec fn mk_inner(d: char, content: Seq<char>) -> BracketAtom {
    if d == '.' { BracketAtom::CollatingSymbol(string_of(content)) }
    else if d == '=' { BracketAtom::EquivalenceClass(string_of(content)) }
    else { BracketAtom::CharClass(string_of(content)) }
}
/// the atom and the number of characters consumed (delimiter + content + `d]`), seen from just after the `[`
pub open spec fn ref_inner(s: Seq<PatternChar>) -> Option<(BracketAtom, int)> {
    if s.len() == 0 { None } else {
        let t = s.skip(1);
        if s[0] == PatternChar::Normal('.') || s[0] == PatternChar::Normal('=') || s[0] == PatternChar::Normal(':') {
            let d = s[0].char_value_spec();
            if has_close(t, d) { Some((mk_inner(d, inner_content(t, first_close(t, d))), first_close(t, d) + 3)) } else { None }
        } else { None }
    }
}
/// the position found by scanning is the first one
pub proof fn lemma_first_close(t: Seq<PatternChar>, d: char, k: int)
    requires closes_at(t, d, k), forall|j: int| 0 <= j < k ==> !closes_at(t, d, j),
    ensures has_close(t, d), first_close(t, d) == k,
{
    let f = first_close(t, d);
    assert(closes_at(t, d, f) && forall|j: int| 0 <= j < f ==> !closes_at(t, d, j));
    if f < k { assert(!closes_at(t, d, f)); }
    if k < f { assert(!closes_at(t, d, k)); }
}
/// what the scanning loop of `parse_inner` has when it returns: `full` is everything read after the delimiter, its
/// last two characters are the first `d]`
pub proof fn lemma_inner_found(s: Seq<PatternChar>, full: Seq<PatternChar>, content: Seq<char>)
    requires
        s.len() > 0,
        s[0] == PatternChar::Normal('.') || s[0] == PatternChar::Normal('=') || s[0] == PatternChar::Normal(':'),
        2 <= full.len() <= s.len() - 1,
        full == s.skip(1).subrange(0, full.len() as int),
        full[full.len() - 2] == s[0],
        full[full.len() - 1] == PatternChar::Normal(']'),
        forall|j: int| 0 <= j && j + 1 < full.len() - 1 ==> !closes_at(s.skip(1), s[0].char_value_spec(), j),
        content == full.subrange(0, full.len() - 2).map_values(|pc: PatternChar| pc.char_value_spec()),
    ensures
        ref_inner(s) == Some((mk_inner(s[0].char_value_spec(), content), full.len() as int + 1)),
        s.skip(full.len() as int + 1) == s.skip(1).skip(full.len() as int),
{
    let t = s.skip(1);
    let d = s[0].char_value_spec();
    let k = full.len() - 2;
    assert(full[k] == t[k]);
    assert(full[k + 1] == t[k + 1]);
    assert(closes_at(t, d, k));
    lemma_first_close(t, d, k);
    assert(t.subrange(0, k) =~= full.subrange(0, k));
    assert(s.skip(full.len() as int + 1) =~= t.skip(full.len() as int));
}
/// `value.into_iter().map(PatternChar::char_value).collect()` into a `String` behind a contract (rewrite rule
/// tokens-to-helper): the characters of the pattern characters, in order.  ASSUMED; the body is what the code called.
#[verifier::external_body]
pub fn verif_collect_chars(value: Vec<PatternChar>) -> (r: String)
    ensures r@ == value@.map_values(|pc: PatternChar| pc.char_value_spec()),
{
    value.into_iter().map(PatternChar::char_value).collect()
}

/// the rest of a bracket expression (after the opening `[`): the bracket and what follows it, or None if unclosed
pub open spec fn ref_bracket(s: Seq<PatternChar>, st: RState) -> Option<(RState, Seq<PatternChar>)>
    decreases s.len()
{
    if s.len() == 0 { None } else {
        let pc = s[0];
        let rest = s.skip(1);
        if pc == PatternChar::Normal(']') && st.items.len() > 0 {
            Some((st, rest))
        } else if (pc == PatternChar::Normal('!') || pc == PatternChar::Normal('^')) && !st.complement && st.items.len() == 0 {
            ref_bracket(rest, RState { complement: true, items: st.items, last_is_op: st.last_is_op })
        } else if pc == PatternChar::Normal('[') {
            match ref_inner(rest) {
                Some((atom, n)) => if 0 < n <= rest.len() { ref_bracket(rest.skip(n), rpush(st, RItem::Atom(atom), false)) } else { None },
                None => ref_bracket(rest, rpush(st, RItem::Atom(BracketAtom::Char('[')), false)),
            }
        } else {
            ref_bracket(rest, rpush(st, RItem::Atom(BracketAtom::Char(pc.char_value_spec())), pc == PatternChar::Normal('-')))
        }
    }
}

impl PatternChar {
    pub open spec fn char_value_spec(self) -> char { match self { PatternChar::Normal(c) => c, PatternChar::Literal(c) => c } }
}

/// abstract atom
pub enum RAtom { Char(char), AnyChar, AnyString, Bracket(bool, Seq<RItem>) }
pub open spec fn atom_is(a: Atom, r: RAtom) -> bool {
    match r {
        RAtom::Char(c) => a == Atom::Char(c),
        RAtom::AnyChar => a == Atom::AnyChar,
        RAtom::AnyString => a == Atom::AnyString,
        RAtom::Bracket(complement, items) => a is Bracket && a->Bracket_0.complement == complement && abs_items(a->Bracket_0.items@) =~= items,
    }
}

/// one atom and what follows it
pub open spec fn ref_atom(s: Seq<PatternChar>) -> Option<(RAtom, Seq<PatternChar>)> {
    if s.len() == 0 { None } else {
        let pc = s[0];
        let rest = s.skip(1);
        if pc == PatternChar::Normal('?') { Some((RAtom::AnyChar, rest)) }
        else if pc == PatternChar::Normal('*') { Some((RAtom::AnyString, rest)) }
        else if pc == PatternChar::Normal('[') {
            match ref_bracket(rest, rinit()) {
                Some((st, rest2)) => Some((RAtom::Bracket(st.complement, st.items), rest2)),
                None => Some((RAtom::Char('['), rest)),       // an unclosed [ is literal
            }
        } else { Some((RAtom::Char(pc.char_value_spec()), rest)) }
    }
}

impl<T: Into<BracketAtom>> vstd::std_specs::convert::FromSpecImpl<T> for BracketItem {
    open spec fn obeys_from_spec() -> bool { true }
    open spec fn from_spec(v: T) -> BracketItem { BracketItem::Atom(super::itax::into_atom(v)) }
}
// derived PartialEq of PatternChar (ASSUMED structural)
impl vstd::std_specs::cmp::PartialEqSpecImpl for PatternChar {
    open spec fn obeys_eq_spec() -> bool { true }
    open spec fn eq_spec(&self, other: &PatternChar) -> bool { *self == *other }
}

/// the whole pattern: the atoms in order.  (`ref_atom` always consumes at least one character; the guard makes
/// that visible to the termination checker.)
pub open spec fn ref_atoms(s: Seq<PatternChar>) -> Seq<RAtom>
    decreases s.len()
{
    match ref_atom(s) {
        None => Seq::empty(),
        Some((a, rest)) => if rest.len() < s.len() { seq![a] + ref_atoms(rest) } else { seq![a] },
    }
}
pub open spec fn atoms_are(v: Seq<Atom>, r: Seq<RAtom>) -> bool {
    v.len() == r.len() && forall|k: int| 0 <= k < v.len() ==> atom_is(#[trigger] v[k], r[k])
}
