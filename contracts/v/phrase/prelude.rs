// Prelude of unit phrase: the field-list algebra behind "$@" / $* (XCU 2.5.2).
pub assume_specification<T>[ core::mem::replace::<T> ](dest: &mut T, src: T) -> (r: T)
    ensures r == *old(dest), *final(dest) == src;

/// A phrase denotes a list of fields.
pub open spec fn view(p: Phrase) -> Seq<Seq<AttrChar>> {
    match p {
        Phrase::Char(c) => seq![seq![c]],
        Phrase::Field(f) => seq![f@],
        Phrase::Full(v) => Seq::new(v@.len(), |i: int| v@[i]@),
    }
}

/// Concatenation of two field lists: the last field of the left list and the first field of the
/// right list are joined into one field (adjacent text attaches to the first and last positional
/// parameter); an empty list is the unit.
pub open spec fn join(a: Seq<Seq<AttrChar>>, b: Seq<Seq<AttrChar>>) -> Seq<Seq<AttrChar>> {
    if a.len() == 0 { b }
    else if b.len() == 0 { a }
    else { a.drop_last().push(a.last() + b[0]) + b.drop_first() }
}


/// `left.extend(right.drain(from..))` behind a contract (rewrite rule tokens-to-helper): the elements of `right`
/// from position `from` on are moved to the end of `left`.  ASSUMED; the body is what the code called.
#[verifier::external_body]
pub fn verif_extend_drain_from<T>(left: &mut Vec<T>, right: &mut Vec<T>, from: usize)
    requires from <= old(right)@.len(),
    ensures
        final(left)@ == old(left)@ + old(right)@.subrange(from as int, old(right)@.len() as int),
        final(right)@ == old(right)@.subrange(0, from as int),
{
    left.extend(right.drain(from..))
}
