// ---------------------------------------------------------------------------
// Specification of evaluation against the variable environment (unit arith_eval).
// ---------------------------------------------------------------------------


pub use super::envlem::dec;

/// Numeric value a variable denotes; None = evaluation must report an error.
pub open spec fn var_value<E: Env>(env: E, name: Seq<char>) -> Option<i64> {
    if E::get_fails(name) { None }
    else if !env.vars().contains_key(name) { Some(0i64) }
    else { value_spec(env.vars()[name]) }
}

pub open spec fn term_value<E: Env>(env: E, t: Term) -> Option<i64> {
    match t {
        Term::Value(Value::Integer(i)) => Some(i),
        Term::Variable { name, location } => var_value(env, name@),
    }
}

pub open spec fn value_contract<X>(expected: Option<i64>, res: Result<Value, X>) -> bool {
    match expected {
        Some(i) => res == Ok::<Value, X>(Value::Integer(i)),
        None => res is Err,
    }
}

pub open spec fn env_same<E: Env>(pre: E, post: E) -> bool {
    post.vars() == pre.vars()
}

/// Outcome of storing `v` into `name`: either the store is updated at exactly that
/// name with the decimal text and the value is returned, or an error and no change.
pub open spec fn assign_contract<E: Env, X>(pre: E, post: E, name: Seq<char>, v: i64, res: Result<Value, X>, ret: i64) -> bool {
    if E::assign_fails(name, dec(v)) { res is Err && env_same(pre, post) }
    else { res == Ok::<Value, X>(Value::Integer(ret)) && post.vars() == pre.vars().insert(name, dec(v)) }
}

pub open spec fn err_unchanged<E: Env, X>(pre: E, post: E, res: Result<Value, X>) -> bool {
    res is Err && env_same(pre, post)
}

/// `++x`, `--x` (ret_new = true) and `x++`, `x--` (ret_new = false) with step d = +1 / -1.
pub open spec fn incdec_contract<E: Env, X>(pre: E, post: E, term: Term, d: int, ret_new: bool, res: Result<Value, X>) -> bool {
    match term {
        Term::Value(_) => err_unchanged(pre, post, res),
        Term::Variable { name, location } => match var_value(pre, name@) {
            None => err_unchanged(pre, post, res),
            Some(v) =>
                if !fits(v + d) { err_unchanged(pre, post, res) }
                else { assign_contract(pre, post, name@, (v + d) as i64, res, if ret_new { (v + d) as i64 } else { v }) },
        },
    }
}

pub open spec fn prefix_contract<E: Env, X>(pre: E, post: E, term: Term, op: PrefixOperator, res: Result<Value, X>) -> bool {
    match op {
        PrefixOperator::Increment => incdec_contract(pre, post, term, 1, true, res),
        PrefixOperator::Decrement => incdec_contract(pre, post, term, -1, true, res),
        PrefixOperator::NumericCoercion => env_same(pre, post) && value_contract(term_value(pre, term), res),
        PrefixOperator::NumericNegation => env_same(pre, post) && match term_value(pre, term) {
            None => res is Err,
            Some(v) => if fits(-v) { res == Ok::<Value, X>(Value::Integer((-v) as i64)) } else { res is Err },
        },
        PrefixOperator::LogicalNegation => env_same(pre, post) && match term_value(pre, term) {
            None => res is Err,
            Some(v) => res == Ok::<Value, X>(Value::Integer(b2i(v == 0) as i64)),
        },
        PrefixOperator::BitwiseNegation => env_same(pre, post) && match term_value(pre, term) {
            None => res is Err,
            Some(v) => res == Ok::<Value, X>(Value::Integer((-v - 1) as i64)),
        },
    }
}

pub open spec fn postfix_contract<E: Env, X>(pre: E, post: E, term: Term, op: PostfixOperator, res: Result<Value, X>) -> bool {
    match op {
        PostfixOperator::Increment => incdec_contract(pre, post, term, 1, false, res),
        PostfixOperator::Decrement => incdec_contract(pre, post, term, -1, false, res),
    }
}

pub open spec fn is_compound(op: BinaryOperator) -> bool {
    op is BitwiseOrAssign || op is BitwiseXorAssign || op is BitwiseAndAssign || op is ShiftLeftAssign
    || op is ShiftRightAssign || op is AddAssign || op is SubtractAssign || op is MultiplyAssign
    || op is DivideAssign || op is RemainderAssign
}

pub open spec fn binary_contract<E: Env, X>(pre: E, post: E, lhs: Term, rhs: Term, op: BinaryOperator, res: Result<Value, X>) -> bool {
    if op is Assign {
        match lhs {
            Term::Value(_) => err_unchanged(pre, post, res),
            Term::Variable { name, location } => match term_value(pre, rhs) {
                None => err_unchanged(pre, post, res),
                Some(r) => assign_contract(pre, post, name@, r, res, r),
            },
        }
    } else if is_compound(op) {
        match lhs {
            Term::Value(_) => err_unchanged(pre, post, res),
            Term::Variable { name, location } => match (var_value(pre, name@), term_value(pre, rhs)) {
                (Some(l), Some(r)) => {
                    let rem_corner = op is RemainderAssign && l == i64::MIN && r == -1;
                    match sem_bin(op, l as int, r as int) {
                        None => err_unchanged(pre, post, res),
                        Some(v) =>
                            if rem_corner { err_unchanged(pre, post, res) || assign_contract(pre, post, name@, 0, res, 0) }
                            else if fits(v) { assign_contract(pre, post, name@, v as i64, res, v as i64) }
                            else { err_unchanged(pre, post, res) },
                    }
                },
                _ => err_unchanged(pre, post, res),
            },
        }
    } else {
        env_same(pre, post) && match (term_value(pre, lhs), term_value(pre, rhs)) {
            (Some(l), Some(r)) => bin_contract(op, l, r, res),
            _ => res is Err,
        }
    }
}

