// ---------------------------------------------------------------------------
// Prelude of unit pipelinerun (properties C13 / C02 / C10, kernel): running the commands of a pipeline
// (yash-semantics/src/command/pipeline.rs execute_commands_in_pipeline, execute_job_controlled_pipeline,
// execute_multi_command_pipeline, shift_or_fail, connect_pipe_and_execute_command, pid_or_fail).
// C13: one child per command, in order, each started right after the pipe set was shifted for it (a next pipe iff it is not
// the last command); the parent closes its last pipe end BEFORE it waits (otherwise a reader never sees end-of-file:
// deadlock); every child started is awaited exactly once, in order, and none is left unreaped; `$?` is the status of the
// last command, or of the rightmost failing one under pipefail.  C02 / C10: an empty pipeline has status 0, a one-command
// pipeline is that command (no second errexit), a multi-command pipeline consults errexit exactly once, at the end.
//
// Hand-written model text (ASSUMED): PipeSet (unit pipeset verifies the real shift / move_to_stdin_stdout against the
// descriptor table), Config::new().start(..) / Config::foreground().start_and_wait(..) with their async closures,
// Env::wait_for_subshell_to_finish (unit waitsub), handle_job_status, apply_errexit, controls_jobs, OptionSet::get, print_error
// are opaque calls driving a ghost monitor in the reduced Env; `commands.iter().cloned()` is an assumed model of the
// slice iterator (yields the elements in order; len() = what is left); `for pid in pids` takes the first element off on
// every round.  Await points dropped.  What the CHILD-side closures do (connect_pipe_and_execute_command, apply_result,
// run_exit_trap) is not under contract here except connect_pipe_and_execute_command itself.
// ---------------------------------------------------------------------------
pub assume_specification<B, C>[ <ControlFlow<B, C> as core::ops::Try>::branch ](cf: ControlFlow<B, C>) -> (r: ControlFlow<<ControlFlow<B, C> as core::ops::Try>::Residual, <ControlFlow<B, C> as core::ops::Try>::Output>)
    ensures match cf { ControlFlow::Continue(c) => r == ControlFlow::<ControlFlow<B, core::convert::Infallible>, C>::Continue(c), ControlFlow::Break(b) => r == ControlFlow::<ControlFlow<B, core::convert::Infallible>, C>::Break(ControlFlow::Break(b)) };
pub assume_specification<B, C>[ <ControlFlow<B, C> as core::ops::FromResidual<ControlFlow<B, core::convert::Infallible>>>::from_residual ](res: ControlFlow<B, core::convert::Infallible>) -> (r: ControlFlow<B, C>)
    ensures res matches ControlFlow::Break(b) ==> r == ControlFlow::<B, C>::Break(b);

pub trait Close {} pub trait Isatty {} pub trait Pipe {} pub trait WriteAll {}
pub trait Runtime: Close + Isatty + Pipe + WriteAll {}
pub struct SyntaxCommand { pub verif_id: int }
pub mod syntax { pub use super::SyntaxCommand as Command; }
pub open spec fn cmd_ids(s: Seq<Rc<SyntaxCommand>>) -> Seq<int> { Seq::new(s.len(), |i: int| s[i].verif_id) }
#[derive(Debug)]
pub struct Errno(pub i32);
#[derive(Clone, Copy)]
pub struct Pid(pub i32);
#[derive(Clone, Copy)]
pub struct ProcessResult { pub verif_opaque: u8 }
pub struct JobControl { pub verif_opaque: u8 }
pub uninterp spec fn status_of(r: ProcessResult) -> ExitStatus;

impl vstd::std_specs::cmp::PartialEqSpecImpl for State {
    open spec fn obeys_eq_spec() -> bool { true }
    open spec fn eq_spec(&self, other: &State) -> bool { *self == *other }
}
pub enum ShellOption { PipeFail, Other(u8) }
pub use ShellOption::PipeFail;
pub struct OptionSet { pub verif_pipefail: bool }
impl OptionSet {
    #[verifier::external_body]
    pub fn get(&self, option: ShellOption) -> (r: State)
        ensures option is PipeFail ==> (r == State::On <==> self.verif_pipefail)
    { unimplemented!() }
}

/// the pipe set as the parent sees it: how often it was shifted, and whether the last shift opened a next pipe
#[derive(Clone, Copy)]
pub struct PipeSet { pub verif_gen: Ghost<nat>, pub verif_has_next: Ghost<bool> }
pub enum Ev { Connected { ok: bool }, Ran { id: int, result: Result } }
pub enum Phase { Idle, StartFailed, Awaited, Handled { pid: Pid, result: ProcessResult, answer: ControlFlow<Divert, ExitStatus> } }
pub struct Mon {
    /// a call out of turn: a shift right after a shift, a child started without a shift for it or with a stale pipe set,
    /// waiting while the parent still holds a pipe end
    pub wrong: bool,
    /// the commands for which a child was started, whether each had a next pipe, the process IDs
    pub cmds: Seq<int>,
    pub has_next: Seq<bool>,
    pub pids: Seq<Pid>,
    /// Some((g, h)): the last thing that happened to the pipe set is its g-th shift, successful, with has_next = h
    pub shifted: Option<(nat, bool)>,
    /// children started and not yet awaited
    pub unreaped: Set<Pid>,
    pub waited: Seq<(Pid, ExitStatus)>,
    /// job-controlled pipelines: the command lists for which ONE child was started
    pub jc_started: Seq<Seq<int>>,
    pub phase: Phase,
    pub awaited: Option<(Pid, ProcessResult)>,
    pub single_runs: Seq<(int, Result)>,
    pub errexit_consulted: nat,
    pub errexit_status: Option<ExitStatus>,
    pub errexit_result: Option<Result>,
    /// inside a child
    pub events: Seq<Ev>,
}
pub struct Env<S> { pub exit_status: ExitStatus, pub options: OptionSet, pub verif_controls_jobs: bool, pub mon: Ghost<Mon>, pub system: S }

impl PipeSet {
    #[verifier::external_body]
    pub fn new() -> (r: PipeSet) ensures r.verif_gen@ == 0 { unimplemented!() }
    /// unit pipeset: closes what the previous command used, opens a pipe for the next one iff `has_next`
    #[verifier::external_body]
    pub fn shift<S>(&mut self, env: &mut Env<S>, has_next: bool) -> (r: std::result::Result<(), Errno>)
        ensures
            final(self).verif_gen@ == old(self).verif_gen@ + 1, final(self).verif_has_next@ == has_next,
            final(env).mon@ == (Mon {
                wrong: old(env).mon@.wrong || old(env).mon@.shifted is Some,
                shifted: if r is Ok { Some((final(self).verif_gen@, has_next)) } else { None },
                ..old(env).mon@ }),
            final(env).exit_status == old(env).exit_status, final(env).options == old(env).options, final(env).verif_controls_jobs == old(env).verif_controls_jobs
    { unimplemented!() }
    /// unit pipeset: in the child, standard input / output become the previous / next pipe
    #[verifier::external_body]
    pub fn move_to_stdin_stdout<S>(self, env: &mut Env<S>) -> (r: std::result::Result<(), Errno>)
        ensures final(env).mon@ == (Mon { events: old(env).mon@.events.push(Ev::Connected { ok: r is Ok }), ..old(env).mon@ }),
            final(env).exit_status == old(env).exit_status
    { unimplemented!() }
}
/// `Config::new().start(env, async move |env, _job_control| { connect_pipe_and_execute_command(env, pipes, command); apply_result; run_exit_trap })`
#[verifier::external_body]
pub fn verif_start<S>(env: &mut Env<S>, pipes: PipeSet, command: Rc<SyntaxCommand>) -> (r: std::result::Result<(Pid, Option<JobControl>), Errno>)
    ensures
        final(env).mon@ == (match r {
            Ok((pid, jc)) => Mon {
                wrong: old(env).mon@.wrong || old(env).mon@.shifted != Some((pipes.verif_gen@, pipes.verif_has_next@)),
                cmds: old(env).mon@.cmds.push(command.verif_id), has_next: old(env).mon@.has_next.push(pipes.verif_has_next@),
                pids: old(env).mon@.pids.push(pid), unreaped: old(env).mon@.unreaped.insert(pid), shifted: None,
                ..old(env).mon@ },
            Err(_) => Mon { shifted: None, ..old(env).mon@ } }),
        r matches Ok((pid, jc)) ==> !old(env).mon@.unreaped.contains(pid) && jc is None,
        final(env).exit_status == old(env).exit_status, final(env).options == old(env).options, final(env).verif_controls_jobs == old(env).verif_controls_jobs
{ unimplemented!() }
/// `Config::foreground().start_and_wait(env, async move |sub_env, _| { execute_multi_command_pipeline(sub_env, &commands_2); apply_result; run_exit_trap })`
#[verifier::external_body]
pub fn verif_start_and_wait<S>(env: &mut Env<S>, commands: Vec<Rc<SyntaxCommand>>) -> (r: std::result::Result<(Pid, ProcessResult), Errno>)
    ensures
        final(env).mon@ == (Mon {
            phase: if r is Ok { Phase::Awaited } else { Phase::StartFailed },
            jc_started: old(env).mon@.jc_started.push(cmd_ids(commands@)),
            awaited: match r { Ok(p) => Some(p), Err(_) => None },
            ..old(env).mon@ }),
        final(env).exit_status == old(env).exit_status, final(env).options == old(env).options, final(env).verif_controls_jobs == old(env).verif_controls_jobs
{ unimplemented!() }
#[verifier::external_body]
pub fn verif_to_vec(commands: &[Rc<SyntaxCommand>]) -> (r: Vec<Rc<SyntaxCommand>>) ensures r@ == commands@ { commands.to_vec() }
#[verifier::external_body]
pub fn verif_handle_job_status<S>(env: &mut Env<S>, pid: Pid, result: ProcessResult) -> (r: ControlFlow<Divert, ExitStatus>)
    requires old(env).mon@.phase is Awaited
    ensures
        final(env).mon@ == (Mon { phase: Phase::Handled { pid, result, answer: r }, ..old(env).mon@ }),
        final(env).exit_status == old(env).exit_status, final(env).options == old(env).options, final(env).verif_controls_jobs == old(env).verif_controls_jobs,
        r matches ControlFlow::Continue(st) ==> st == status_of(result)
{ unimplemented!() }
#[verifier::external_body]
pub fn verif_print_error<S>(env: &mut Env<S>, errno: &Errno)
    ensures final(env).mon@ == old(env).mon@, final(env).exit_status == old(env).exit_status, final(env).options == old(env).options, final(env).verif_controls_jobs == old(env).verif_controls_jobs
{ unimplemented!() }
/// `commands.iter().cloned()` (ASSUMED model of slice::Iter + Cloned): hands out the elements in order
pub struct VerifCmdIter { pub rest: Ghost<Seq<Rc<SyntaxCommand>>>, pub inner: Vec<Rc<SyntaxCommand>> }
impl VerifCmdIter {
    #[verifier::external_body]
    pub fn new(commands: &[Rc<SyntaxCommand>]) -> (r: VerifCmdIter) ensures r.rest@ == commands@ { unimplemented!() }
    #[verifier::external_body]
    pub fn next(&mut self) -> (r: Option<Rc<SyntaxCommand>>)
        ensures old(self).rest@.len() == 0 ==> r is None && final(self).rest@ == old(self).rest@,
            old(self).rest@.len() > 0 ==> r == Some(old(self).rest@[0]) && final(self).rest@ == old(self).rest@.subrange(1, old(self).rest@.len() as int)
    { unimplemented!() }
    #[verifier::external_body]
    pub fn len(&self) -> (r: usize) ensures r == self.rest@.len() { unimplemented!() }
}
/// taking the first element off the process IDs still to go (what `for pid in pids` does on every round; ASSUMED)
#[verifier::external_body]
pub fn verif_next_pid(rest: &mut Vec<Pid>) -> (r: Option<Pid>)
    ensures old(rest)@.len() == 0 ==> r is None && final(rest)@ == old(rest)@,
        old(rest)@.len() > 0 ==> r == Some(old(rest)@[0]) && final(rest)@ == old(rest)@.subrange(1, old(rest)@.len() as int)
{ if rest.is_empty() { None } else { Some(rest.remove(0)) } }
impl<S> Env<S> {
    /// lib.rs wait_for_subshell_to_finish (unit waitsub): a child of ours that has not been awaited yet is awaited: Ok with its
    /// own process ID and final status; anything else may fail.  Waiting while the parent holds a pipe end is out of turn.
    #[verifier::external_body]
    pub fn wait_for_subshell_to_finish(&mut self, target: Pid) -> (r: std::result::Result<(Pid, ExitStatus), Errno>)
        ensures
            old(self).mon@.unreaped.contains(target) ==> (r matches Ok((pid, st)) && pid == target && final(self).mon@ == (Mon {
                wrong: old(self).mon@.wrong || !(old(self).mon@.shifted matches Some((g, h)) && !h),
                unreaped: old(self).mon@.unreaped.remove(target), waited: old(self).mon@.waited.push((target, st)), ..old(self).mon@ })),
            !old(self).mon@.unreaped.contains(target) ==> final(self).mon@ == (Mon { wrong: true, ..old(self).mon@ }),
            final(self).exit_status == old(self).exit_status, final(self).options == old(self).options, final(self).verif_controls_jobs == old(self).verif_controls_jobs
    { unimplemented!() }
    #[verifier::external_body]
    pub fn controls_jobs(&self) -> (r: bool) ensures r == self.verif_controls_jobs { unimplemented!() }
    #[verifier::external_body]
    pub fn apply_errexit(&mut self) -> (r: Result)
        ensures final(self).mon@ == (Mon { errexit_consulted: old(self).mon@.errexit_consulted + 1, errexit_status: Some(old(self).exit_status), errexit_result: Some(r), ..old(self).mon@ }),
            final(self).exit_status == old(self).exit_status, final(self).options == old(self).options
    { unimplemented!() }
}
impl SyntaxCommand {
    #[verifier::external_body]
    pub fn execute<S>(&self, env: &mut Env<S>) -> (r: Result)
        ensures final(env).mon@ == (Mon { events: old(env).mon@.events.push(Ev::Ran { id: self.verif_id, result: r }), single_runs: old(env).mon@.single_runs.push((self.verif_id, r)), ..old(env).mon@ })
    { unimplemented!() }
}
pub open spec fn succ(st: ExitStatus) -> bool { st.0 == 0 }
/// the status of a pipeline whose commands ended with the statuses w[lo..]: that of the last command - or, under pipefail,
/// of the rightmost one that failed; 0 if there is none
pub open spec fn pipe_status_from(w: Seq<(Pid, ExitStatus)>, lo: int, pipefail: bool) -> ExitStatus
    decreases w.len()
{
    if w.len() <= lo || w.len() == 0 { ExitStatus(0) }
    else if !succ(w.last().1) || !pipefail { w.last().1 }
    else { pipe_status_from(w.drop_last(), lo, pipefail) }
}
/// what a completed multi-command pipeline looks like from the parent
pub open spec fn multi_post<S>(e0: Env<S>, e1: Env<S>, commands: Seq<Rc<SyntaxCommand>>) -> bool {
    let m0 = e0.mon@; let m1 = e1.mon@; let n = commands.len() as int;
    &&& m1.cmds == m0.cmds + cmd_ids(commands)
    &&& m1.has_next == m0.has_next + Seq::new(commands.len(), |i: int| i < n - 1)
    &&& (m1.shifted matches Some((g, h)) && !h)
    &&& m1.pids.len() == m0.pids.len() + n
    &&& m1.waited.len() == m0.waited.len() + n
    &&& (forall|i: int| 0 <= i < n ==> (#[trigger] m1.waited[m0.waited.len() + i]).0 == m1.pids[m0.pids.len() + i])
    &&& m1.waited.subrange(0, m0.waited.len() as int) == m0.waited
    &&& m1.unreaped =~= m0.unreaped
    &&& e1.exit_status == pipe_status_from(m1.waited, m0.waited.len() as int, e0.options.verif_pipefail)
}
