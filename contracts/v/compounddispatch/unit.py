# Unit compounddispatch: which executor runs for which compound command (kernel of C02).
CC = 'yash-semantics/src/command/compound_command.rs'
SY = 'yash-syntax/src/syntax.rs'
MOD_HEAD = '''    use vstd::prelude::*;
'''
L0 = 'old(env).log@'
L1 = 'final(env).log@'
UNIT = {
    'name': 'compounddispatch',
    'property': 'C02',
    'rlimit': 40,
    'verus_args': ['--edition=2024'],
    'rename_idents': {'r#else': 'verif_else', 'r#if': 'verif_if'},
    'vacuity_floor': 1,
    'controls': {CC + "::<S: Runtime + 'static> Command<S> for syntax::CompoundCommand::execute": {'ensures': {'append': 'false'}}},
    'control_expect': ['execute'],
    'items': [
        ('@raw', 'pub mod cd1 {\n' + MOD_HEAD),
        ('@file', 'prelude.rs'),
        ('@raw', 'pub mod syntax {\n    use super::*;\n'),
        (SY, ['enum CompoundCommand'], {'drop_derives': 'all'}),
        ('@raw', '}\n'),
        (CC, ["impl<S: Runtime + 'static> Command<S> for syntax::CompoundCommand", 'fn execute'], {'ret': 'r', 'rewrites': ['strip-async'],
            'wrapper': 'impl syntax::CompoundCommand',
            'sig_token_rewrites': [('execute (', "execute<S: Runtime + 'static>(")],
            'ensures': [
                # exactly one executor runs, once, and its result is the result
                L1 + '.len() == ' + L0 + '.len() + 1 && ' + L1 + '.subrange(0, ' + L0 + '.len() as int) =~= ' + L0 + ' && ' + L1 + '.last().1 == r',
                # ... the one of this kind of command, with exactly its parts; a brace group runs its list HERE
                '(match *self { '
                'syntax::CompoundCommand::Grouping(l) => ' + L1 + '.last().0 == (Ev::ListHere { list: l.verif_id }), '
                'syntax::CompoundCommand::Subshell { body, location } => ' + L1 + '.last().0 == (Ev::Subshell { body: body.verif_id }), '
                'syntax::CompoundCommand::For { name, values, body } => ' + L1 + '.last().0 == (Ev::For { name: name.verif_id, values: match values { Some(v) => Some(word_ids(v@)), None => None }, body: body.verif_id }), '
                'syntax::CompoundCommand::While { condition, body } => ' + L1 + '.last().0 == (Ev::While { condition: condition.verif_id, body: body.verif_id }), '
                'syntax::CompoundCommand::Until { condition, body } => ' + L1 + '.last().0 == (Ev::Until { condition: condition.verif_id, body: body.verif_id }), '
                'syntax::CompoundCommand::If { condition, body, elifs, verif_else } => ' + L1 + '.last().0 == (Ev::If { condition: condition.verif_id, body: body.verif_id, elifs: elif_ids(elifs@), else_: match verif_else { Some(l) => Some(l.verif_id), None => None } }), '
                'syntax::CompoundCommand::Case { subject, items } => ' + L1 + '.last().0 == (Ev::Case { subject: subject.verif_id, items: item_ids(items@) }) })',
            ]}),
        ('@raw', '}\n'),
    ],
}
