// ---------------------------------------------------------------------------
// Prelude of unit joblist (hand-written specification text; no program text).
// ---------------------------------------------------------------------------
/// `libc::pid_t` on this platform (job.rs: `type RawPidDef = libc::pid_t` under cfg(unix)); assumed.
type RawPidDef = i32;

/// What iterating a slab yields: every occupied slot exactly once, in increasing key order.
pub open spec fn iter_yields<'a, T>(rem: Seq<(usize, &'a T)>, m: Map<usize, T>) -> bool {
    &&& forall|k: int| #![trigger rem[k]] 0 <= k < rem.len() ==> m.contains_key(rem[k].0) && *rem[k].1 == m[rem[k].0]
    &&& forall|i: usize| #![trigger m.contains_key(i)] m.contains_key(i) ==> exists|k: int| #![trigger rem[k]] 0 <= k < rem.len() && rem[k].0 == i
    &&& forall|j: int, k: int| #![trigger rem[j], rem[k]] 0 <= j < k < rem.len() ==> rem[j].0 < rem[k].0
}

// ---- abstract view of the job table ------------------------------------------------------
impl ProcessResult {
    pub open spec fn stopped(&self) -> bool { self is Stopped }
}

impl ProcessState {
    pub open spec fn stopped(&self) -> bool {
        match self { ProcessState::Halted(r) => r.stopped(), ProcessState::Running => false }
    }
    pub open spec fn alive(&self) -> bool {
        match self { ProcessState::Halted(r) => r.stopped(), ProcessState::Running => true }
    }
}

impl JobList {
    /// job number -> job
    pub closed spec fn jobs_view(&self) -> Map<usize, Job> { slab_map(&self.jobs) }
    pub closed spec fn pids_view(&self) -> Map<Pid, usize> { self.pids_to_indices@ }
    pub closed spec fn cur_idx(&self) -> usize { self.current_job_index }
    pub closed spec fn prev_idx(&self) -> usize { self.previous_job_index }
    pub closed spec fn async_pid(&self) -> Pid { self.last_async_pid }

    #[verifier::inline]
    pub open spec fn has(&self, i: usize) -> bool { self.jobs_view().contains_key(i) }
    /// job number i exists and is suspended
    #[verifier::inline]
    pub open spec fn susp(&self, i: usize) -> bool { self.jobs_view().contains_key(i) && self.jobs_view()[i].state.stopped() }

    /// `%%`/`%+`: the current job
    pub open spec fn cur(&self) -> Option<usize> {
        if self.has(self.cur_idx()) { Some(self.cur_idx()) } else { None }
    }
    /// `%-`: the previous job
    pub open spec fn prev(&self) -> Option<usize> {
        if self.prev_idx() != self.cur_idx() && self.has(self.prev_idx()) { Some(self.prev_idx()) } else { None }
    }

    /// "each process ID designates at most one job": the pid index and the table are in bijection.
    pub open spec fn pids_in_sync(&self) -> bool {
        &&& vstd::std_specs::hash::obeys_key_model::<Pid>()
        &&& forall|i: usize| #![trigger self.jobs_view().contains_key(i)] self.has(i) ==> self.pids_view().contains_key(self.jobs_view()[i].pid) && self.pids_view()[self.jobs_view()[i].pid] == i
        &&& forall|p: Pid| #![trigger self.pids_view().contains_key(p)] self.pids_view().contains_key(p) ==> self.has(self.pids_view()[p]) && self.jobs_view()[self.pids_view()[p]].pid == p
        &&& self.jobs_view().dom().len() == self.pids_view().dom().len()
    }

    /// The consistency statement of property C12, clause by clause.
    pub open spec fn wf(&self) -> bool {
        // a non-empty table has a current job
        &&& forall|i: usize| #![trigger self.jobs_view().contains_key(i)] self.has(i) ==> self.cur() is Some
        // two or more jobs imply a previous job distinct from it
        &&& forall|i: usize, j: usize| #![trigger self.jobs_view().contains_key(i), self.jobs_view().contains_key(j)]
                i != j && self.has(i) && self.has(j) ==> self.prev() is Some && self.prev() != self.cur()
        // whenever suspended jobs exist the current job is suspended
        &&& forall|i: usize| #![trigger self.jobs_view().contains_key(i)] self.susp(i) ==> self.susp(self.cur_idx())
        // ... and with two or more the previous job is too
        &&& forall|i: usize, j: usize| #![trigger self.jobs_view().contains_key(i), self.jobs_view().contains_key(j)]
                i != j && self.susp(i) && self.susp(j) ==> self.prev() is Some && self.susp(self.prev_idx())
        // each process ID designates at most one job
        &&& self.pids_in_sync()
    }

    /// Everything observable is unchanged.
    pub open spec fn same_as(&self, other: &JobList) -> bool {
        &&& self.jobs_view() == other.jobs_view()
        &&& self.pids_view() == other.pids_view()
        &&& self.cur_idx() == other.cur_idx()
        &&& self.prev_idx() == other.prev_idx()
        &&& self.async_pid() == other.async_pid()
    }
}

impl vstd::std_specs::core::IndexSpecImpl<usize> for JobList {
    open spec fn index_req(&self, index: &usize) -> bool { self.jobs_view().contains_key(*index) }
}

/// What `update_status` may change in the updated job: the state is recorded, the expectation is
/// cleared, `state_changed` is unconstrained here (it is compared through derived `PartialEq` of
/// types outside this unit; not part of C12); pid, flags and name are untouched.
pub open spec fn updated_ok(old_j: Job, new_j: Job, state: ProcessState) -> bool {
    &&& new_j.pid == old_j.pid
    &&& new_j.job_controlled == old_j.job_controlled
    &&& new_j.is_owned == old_j.is_owned
    &&& new_j.name == old_j.name
    &&& new_j.state == state
    &&& new_j.expected_state is None
}
