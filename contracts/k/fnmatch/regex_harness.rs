//! Kani contracts for the pattern -> regex translation (property C04), injected as a child module
//! of yash-fnmatch/src/ast/regex.rs.
//!
//! Contract of the per-character emitters: the text written for a literal character `c` denotes
//! exactly that character in the regex syntax of the `regex` crate:
//!     text == c            and c is not special in that position, or
//!     text == '\\' c       and c may be escaped (regex_syntax::is_escapeable_character).
//! Special outside a class: \ . + * ? ( ) | [ ] { } ^ $     inside a class: \ [ ] ^ - & ~
//! (assumed contract on the dependency regex-syntax 0.8).
#![allow(dead_code, unused_imports)]
use super::*;
use std::fmt::Write;

pub(super) struct Buf {
    pub bytes: [u8; 12],
    pub len: usize,
}

impl Buf {
    pub fn new() -> Self {
        Buf { bytes: [0; 12], len: 0 }
    }
}

impl Write for Buf {
    fn write_str(&mut self, s: &str) -> std::fmt::Result {
        let b = s.as_bytes();
        let mut i = 0;
        while i < b.len() {
            if self.len >= 12 {
                return Err(std::fmt::Error);
            }
            self.bytes[self.len] = b[i];
            self.len += 1;
            i += 1;
        }
        Ok(())
    }
}

fn special_outside(c: u8) -> bool {
    matches!(c, b'\\' | b'.' | b'+' | b'*' | b'?' | b'(' | b')' | b'|' | b'[' | b']' | b'{' | b'}' | b'^' | b'$')
}

fn special_inside(c: u8) -> bool {
    matches!(c, b'\\' | b'[' | b']' | b'^' | b'-' | b'&' | b'~')
}

/// `out` denotes the literal ASCII character `c` in a position whose special characters are `special`.
fn denotes_literal(out: &Buf, c: u8, special: fn(u8) -> bool) -> bool {
    if out.len == 1 {
        out.bytes[0] == c && !special(c)
    } else if out.len == 2 {
        out.bytes[0] == b'\\' && out.bytes[1] == c && regex_syntax::is_escapeable_character(c as char)
    } else {
        false
    }
}

fn atom_char_range(lo: u8, hi: u8) {
    let config = Config::default();
    let mut c = lo;
    while c < hi {
        let mut out = Buf::new();
        let r = Atom::Char(c as char).fmt_regex(&config, &mut out);
        assert!(r.is_ok(), "Atom::Char never fails");
        assert!(denotes_literal(&out, c, special_outside), "Atom::Char(c) is emitted as the literal c");
        c += 1;
    }
}

fn bracket_char_range(lo: u8, hi: u8) {
    let mut c = lo;
    while c < hi {
        let mut out = Buf::new();
        let r = BracketAtom::Char(c as char).fmt_regex(&mut out);
        assert!(r.is_ok(), "BracketAtom::Char never fails");
        assert!(denotes_literal(&out, c, special_inside), "BracketAtom::Char(c) is emitted as the literal c inside a class");
        let mut out2 = Buf::new();
        let r2 = BracketAtom::Char(c as char).fmt_regex_single(&mut out2);
        assert!(r2.is_ok() && denotes_literal(&out2, c, special_inside), "range end point c is emitted as the literal c");
        c += 1;
    }
}

/// Every ASCII character, one after the other (concrete loops: 128 concrete executions in total).
macro_rules! ascii_ranges {
    ($($a:ident, $b:ident: $lo:expr, $hi:expr;)*) => { $(
        #[kani::proof]
        #[kani::unwind(34)]
        fn $a() { atom_char_range($lo, $hi); }
        #[kani::proof]
        #[kani::unwind(34)]
        fn $b() { bracket_char_range($lo, $hi); }
    )* };
}
ascii_ranges! {
    c04q_atom_char_ascii_00, c04q_bracket_char_ascii_00: 0, 32;
    c04q_atom_char_ascii_20, c04q_bracket_char_ascii_20: 32, 64;
    c04q_atom_char_ascii_40, c04q_bracket_char_ascii_40: 64, 96;
    c04q_atom_char_ascii_60, c04q_bracket_char_ascii_60: 96, 128;
}

/// Non-ASCII characters are never special: they are emitted unescaped, as their own UTF-8 encoding.
fn check_non_ascii(c: char) {
    let config = Config::default();
    let mut enc = [0u8; 4];
    let expected = c.encode_utf8(&mut enc).as_bytes().len();
    let mut out = Buf::new();
    assert!(Atom::Char(c).fmt_regex(&config, &mut out).is_ok());
    assert!(out.len == expected, "a non-ASCII literal is emitted unescaped outside a class");
    let mut k = 0;
    while k < expected {
        assert!(out.bytes[k] == enc[k], "... as its own encoding");
        k += 1;
    }
    let mut out2 = Buf::new();
    assert!(BracketAtom::Char(c).fmt_regex(&mut out2).is_ok());
    assert!(out2.len == expected, "a non-ASCII literal is emitted unescaped inside a class");
}

// Every non-ASCII character is covered by the Verus unit fnregex (unbounded).  A symbolic non-ASCII `char`
// and a loop over 68 concrete ones both exceeded 900 s here (`str::contains(char)` goes through the substring
// searcher for multi-byte needles), so Kani keeps single concrete characters whose low byte is a special
// character: a truncating comparison would escape them.
macro_rules! non_ascii_chars {
    ($($name:ident: $c:expr;)*) => { $(
        #[kani::proof]
        #[kani::unwind(20)]
        fn $name() { check_non_ascii($c); }
    )* };
}
// for every character that is special in either position: the code points U+01xx and U+30xx with that low byte
non_ascii_chars! {
    c04q_char_non_ascii_u015c: '\u{015C}';
    c04q_char_non_ascii_u305c: '\u{305C}';
    c04q_char_non_ascii_u012e: '\u{012E}';
    c04q_char_non_ascii_u302e: '\u{302E}';
    c04q_char_non_ascii_u012b: '\u{012B}';
    c04q_char_non_ascii_u302b: '\u{302B}';
    c04q_char_non_ascii_u012a: '\u{012A}';
    c04q_char_non_ascii_u302a: '\u{302A}';
    c04q_char_non_ascii_u013f: '\u{013F}';
    c04q_char_non_ascii_u303f: '\u{303F}';
    c04q_char_non_ascii_u0128: '\u{0128}';
    c04q_char_non_ascii_u3028: '\u{3028}';
    c04q_char_non_ascii_u0129: '\u{0129}';
    c04q_char_non_ascii_u3029: '\u{3029}';
    c04q_char_non_ascii_u017c: '\u{017C}';
    c04q_char_non_ascii_u307c: '\u{307C}';
    c04q_char_non_ascii_u015b: '\u{015B}';
    c04q_char_non_ascii_u305b: '\u{305B}';
    c04q_char_non_ascii_u015d: '\u{015D}';
    c04q_char_non_ascii_u305d: '\u{305D}';
    c04q_char_non_ascii_u017b: '\u{017B}';
    c04q_char_non_ascii_u307b: '\u{307B}';
    c04q_char_non_ascii_u017d: '\u{017D}';
    c04q_char_non_ascii_u307d: '\u{307D}';
    c04q_char_non_ascii_u015e: '\u{015E}';
    c04q_char_non_ascii_u305e: '\u{305E}';
    c04q_char_non_ascii_u0124: '\u{0124}';
    c04q_char_non_ascii_u3024: '\u{3024}';
    c04q_char_non_ascii_u012d: '\u{012D}';
    c04q_char_non_ascii_u302d: '\u{302D}';
    c04q_char_non_ascii_u0126: '\u{0126}';
    c04q_char_non_ascii_u3026: '\u{3026}';
    c04q_char_non_ascii_u017e: '\u{017E}';
    c04q_char_non_ascii_u307e: '\u{307E}';
}

/// "collating symbols and equivalence classes stand for their literal characters"
fn check_collating(c: u8) {
    let mut s = String::new();
    s.push(c as char);
    let mut out = Buf::new();
    let r = BracketAtom::CollatingSymbol(s.clone()).fmt_regex(&mut out);
    assert!(r.is_ok(), "a one-character collating symbol is accepted");
    assert!(denotes_literal(&out, c, special_inside), "[.c.] is emitted as the literal c inside a class");
    let mut out2 = Buf::new();
    let r2 = BracketAtom::EquivalenceClass(s).fmt_regex(&mut out2);
    assert!(r2.is_ok() && denotes_literal(&out2, c, special_inside), "[=c=] is emitted as the literal c inside a class");
}

#[kani::proof]
#[kani::unwind(20)]
fn c04q_collating_symbol_specials() {
    // the characters that are special inside a class, and two ordinary ones
    let cs = [b'\\', b'[', b']', b'^', b'-', b'&', b'~', b'a', b'.'];
    let mut i = 0;
    while i < cs.len() {
        check_collating(cs[i]);
        i += 1;
    }
}

/// `?` and `*`
#[kani::proof]
#[kani::unwind(14)]
fn c04q_any_atoms() {
    let config = Config::default();
    let mut out = Buf::new();
    assert!(Atom::AnyChar.fmt_regex(&config, &mut out).is_ok());
    assert!(out.len == 1 && out.bytes[0] == b'.', "? is any one character");
    let mut out = Buf::new();
    assert!(Atom::AnyString.fmt_regex(&config, &mut out).is_ok());
    assert!(out.len == 2 && out.bytes[0] == b'.' && out.bytes[1] == b'*', "* is any string");
}

/// Must FAIL.
#[kani::proof]
#[kani::unwind(14)]
fn c04x_control_dot_unescaped() {
    let config = Config::default();
    let mut out = Buf::new();
    let _ = Atom::Char('.').fmt_regex(&config, &mut out);
    assert!(out.len == 1, "CONTROL (expected to fail): '.' is emitted unescaped");
}

// native replay of a Kani counterexample (bin/vcheck replay): the generated test is included here
#[cfg(verif_playback)]
include!("/verif/work/k/playback/fnmatch_regex_harness.rs");
