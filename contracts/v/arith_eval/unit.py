# Unit arith_eval: yash-arith evaluation kernel under Verus contracts (property C03).
EVAL = 'yash-arith/src/eval.rs'
AST = 'yash-arith/src/ast.rs'
TOKEN = 'yash-arith/src/token.rs'

ENV_SPEC = {
    'trait_extra': '''
    /// ghost view of the variable store (assumed contract on implementors)
    spec fn vars(&self) -> Map<Seq<char>, Seq<char>>;
    /// whether an access fails is a property of the name (and value), fixed during one evaluation
    spec fn get_fails(name: Seq<char>) -> bool;
    spec fn assign_fails(name: Seq<char>, value: Seq<char>) -> bool;
''',
    'methods': {
        'get_variable': {
            'ret': 'res',
            'ensures': [
                'Self::get_fails(name@) <==> res is Err',
                'res is Ok ==> (match res->Ok_0 { Some(v) => self.vars().contains_key(name@) && v@ == self.vars()[name@], None => !self.vars().contains_key(name@) })',
            ],
        },
        'assign_variable': {
            'ret': 'res',
            'ensures': [
                'Self::assign_fails(name@, value@) <==> res is Err',
                'res is Ok ==> final(self).vars() == old(self).vars().insert(name@, value@)',
                'res is Err ==> final(self).vars() == old(self).vars()',
            ],
        },
    },
}

MOD_HEAD = '''    use vstd::prelude::*;
    use std::ops::Range;
    use std::fmt::Display;
    use vstd::arithmetic::power2::pow2;
'''

UNIT = {
    'name': 'arith_eval',
    'property': 'C03',
    'rlimit': 60,
    'uses': [],
    # vacuity twin: every contracted fn with a precondition gets `ensures false` appended and must fail
    'controls': 'auto',
    'items': [
        ('@file', 'prelude_math.rs'),
        # ---- types and operator tables -------------------------------------------------
        ('@raw', 'pub mod ty {\n' + MOD_HEAD),
        (TOKEN, ['enum Value']),
        (TOKEN, ['impl Display for Value'], {'attrs': ['#[verifier::external]']}),
        (TOKEN, ['enum Term'], {'drop_derive_names': ['Clone']}),
        (TOKEN, ['enum Operator']),
        (AST, ['enum PrefixOperator']),
        (AST, ['enum PostfixOperator']),
        (AST, ['enum BinaryOperator']),
        (AST, ['enum Associativity'], {'vis': 'pub'}),
        ('@file', 'prelude_tables.rs'),
        (AST, ['impl Operator', 'fn as_prefix'], {'vis': 'pub', 'ret': 'r', 'ensures': ['r == c_prefix(self)']}),
        (AST, ['impl Operator', 'fn as_postfix'], {'vis': 'pub', 'ret': 'r', 'ensures': ['r == c_postfix(self)']}),
        (AST, ['impl Operator', 'fn as_binary'], {'vis': 'pub', 'ret': 'r', 'ensures': ['r == c_binary(self)']}),
        (AST, ['impl Operator', 'fn precedence'], {'vis': 'pub', 'ret': 'p', 'ensures': ['p == c_level(self)']}),
        ('yash-arith/src/env.rs', ['trait Env'], ENV_SPEC),
        (AST, ['enum Ast']),
        (EVAL, ['enum EvalError']),
        (EVAL, ['struct Error']),
        ('@raw', '}\n'),
        ('@file', 'prelude_envlem.rs'),
        # ---- evaluation ------------------------------------------------------------------
        ('@raw', 'pub mod fx {\n' + MOD_HEAD + '    use super::math::*;\n    use super::ty::*;\n'),
        ('@broadcast', ['super::lem::lemma_rust_div', 'super::lem::lemma_rust_rem', 'super::lem::lemma_tdiv_range',
                        'super::lem::lemma_trem_range', 'super::lem::lemma_i64_shl', 'super::lem::lemma_i64_shr',
                        'super::envlem::axiom_value_to_string', 'super::envlem::lemma_i64_not']),
        ('@file', 'prelude_sem.rs'),
        ('@file', 'prelude_env.rs'),
        ('@file', 'prelude_sem_eval.rs'),
        # parse_variable_value slices and scans a &str (outside Verus's string support): its result is named
        # by an uninterpreted function; agreement with the tokenizer's constant rules is checked by Kani (unit arith)
        (TOKEN, ['fn parse_integer_constant'], {'attrs': ['#[verifier::external_body]']}),
        (EVAL, ['fn parse_variable_value'], {'attrs': ['#[verifier::external_body]'], 'ret': 'r', 'ensures': [
            'r is Ok <==> value_spec(value@) is Some', 'r is Ok ==> r->Ok_0 == value_spec(value@)->0']}),
        (EVAL, ['fn expand_variable'], {
            'ret': 'res',
            'ensures': ['value_contract(var_value(*env, name@), res)'],
        }),
        (EVAL, ['fn into_value'], {
            'ret': 'res',
            'ensures': ['value_contract(term_value(*env, term), res)'],
        }),
        (EVAL, ['fn require_variable'], {
            'ret': 'res',
            'ensures': [
                'term is Value ==> res is Err',
                'term is Variable ==> res is Ok && res->Ok_0.0 == term->name && res->Ok_0.1 == term->location',
            ],
        }),
        (EVAL, ['fn unwrap_or_overflow'], {
            'ret': 'res',
            'ensures': [
                'checked_computation is Some ==> res == Ok::<T, Error<E1, E2>>(checked_computation->0)',
                'checked_computation is None ==> res is Err',
            ],
            'closures': {0: {'ret': 'e: Error<E1, E2>', 'ensures': ['true']}},
        }),
        (EVAL, ['fn assign'], {
            'ret': 'res',
            'ensures': [
                'assign_contract(*old(env), *final(env), name@, value->0, res, value->0)',
            ],
        }),
        (EVAL, ['fn apply_prefix'], {
            'ret': 'res',
            'ensures': ['prefix_contract(*old(env), *final(env), term, operator, res)',
                        'sem_ok_v(f_prefix::<E>(old(env).vars(), term, operator), res, final(env).vars())'],
        }),
        (EVAL, ['fn apply_postfix'], {
            'ret': 'res',
            'ensures': ['postfix_contract(*old(env), *final(env), term, operator, res)',
                        'sem_ok_v(f_postfix::<E>(old(env).vars(), term, operator), res, final(env).vars())'],
        }),
        (EVAL, ['fn binary_result'], {
            'ret': 'res',
            'ensures': [
                # top-level postcondition, from the property statement
                'bin_contract(operator, lhs->0, rhs->0, res)',
            ],
            'nested': {
                'require_non_negative': {
                    'ret': 'res',
                    'ensures': [
                        '0 <= v <= u32::MAX ==> res == Ok::<u32, Error<E1, E2>>(v as u32)',
                        '!(0 <= v <= u32::MAX) ==> res is Err',
                    ],
                    'closures': {0: {'ret': 'e: Error<E1, E2>', 'ensures': ['true']}},
                },
                'require_non_zero': {
                    'ret': 'res',
                    'ensures': ['res is Ok <==> v != 0'],
                },
            },
            'closures': {
                0: {'param_types': ['&i64'], 'ret': 'keep: bool',
                    'requires': ['rhs < 64'],
                    'ensures': ['keep == (*result_r >= 0 && (*result_r >> rhs) == lhs)']},
            },
        }),
        (EVAL, ['fn apply_binary'], {
            'ret': 'res',
            'ensures': ['binary_contract(*old(env), *final(env), lhs, rhs, operator, res)',
                        'sem_ok_v(f_binary::<E>(old(env).vars(), lhs, rhs, operator), res, final(env).vars())'],
        }),
        (EVAL, ['fn eval'], {
            'ret': 'res',
            'requires': ['wf(ast@)'],
            # top-level postcondition from the property: the result is that of the reference evaluator
            # (exact values, errors exactly where demanded, unevaluated operands have no effect)
            'ensures': ['sem_ok(sem_eval::<E>(ast@, old(env).vars()), res, final(env).vars())'],
            'decreases': ['ast@.len()'],
            'eta_expand': {'Term::Value': "Term<'a>"},
        }),
        ('@raw', '}\n'),
    ],
}
