# Unit simpleparse: Parser::simple_command, the command-position flag of alias substitution (kernel of C17 / C02).
SC = 'yash-syntax/src/parser/simple_command.rs'
LC = 'yash-syntax/src/parser/lex/core.rs'
PC = 'yash-syntax/src/parser/core.rs'
MOD_HEAD = '''    use vstd::prelude::*;
'''
M0 = 'old(self).mon@'
M1 = 'final(self).mon@'
UNIT = {
    'name': 'simpleparse',
    'property': 'C17',
    'rlimit': 80,
    'verus_args': ['--edition=2024'],
    'vacuity_floor': 1,
    'controls': {SC + "::Parser<'_, '_>::simple_command": {'ensures': {'append': 'false'}}},
    'control_expect': ['simple_command'],
    'items': [
        ('@raw', 'pub mod sp {\n' + MOD_HEAD),
        ('@raw', 'pub mod lex {\n    use vstd::prelude::*;\n    use super::Word;\n    #[derive(Clone, Copy, Debug, Eq, PartialEq)] pub struct Keyword(pub u8);\n    #[derive(Clone, Copy, Debug, Eq, PartialEq)] pub struct Operator(pub u8);\n'),
        (LC, ['enum TokenId'], {}),
        (LC, ['struct Token'], {'drop_derives': 'all'}),
        ('@raw', '}\npub use lex::TokenId::{Operator, Token};\n'),
        (PC, ['enum Rec'], {'drop_derives': 'all'}),
        ('@file', 'prelude.rs'),
        (SC, ['struct Builder'], {'drop_derives': 'all', 'pub_fields': True, 'vis': 'pub'}),
        ('@raw', 'impl Default for Builder { fn default() -> (r: Builder) ensures r.assigns@.len() == 0 && r.words@.len() == 0 && r.redirs@.len() == 0 { Builder { assigns: Vec::new(), words: Vec::new(), redirs: Vec::new() } } }\n'),
        (SC, ['impl Builder', 'fn is_empty'], {'ret': 'r', 'vis': 'pub', 'ensures': ['r == (self.assigns@.len() == 0 && self.words@.len() == 0 && self.redirs@.len() == 0)']}),
        ('@raw', '''/// `(!result.is_empty()).then(|| result.into())` (From<Builder> for SimpleCommand moves the three lists)
#[verifier::external_body]
pub fn verif_finish(result: Builder) -> (r: Option<SimpleCommand>) ensures r is Some <==> !(result.assigns@.len() == 0 && result.words@.len() == 0 && result.redirs@.len() == 0) { unimplemented!() }
'''),
        (SC, ["impl Parser<'_, '_>", 'fn simple_command'], {'ret': 'r', 'rewrites': ['strip-async', 'let-chain-nest'],
            'attrs': ['#[verifier::exec_allows_no_decreases_clause]'],
            'entry_ghost': 'let ghost mut verif_wlog: Seq<nat> = Seq::empty();',
            'token_rewrites': [
                ('debug_assert ! ( ! result . words . is_empty ( ) ) ;', 'assert(result.words@.len() > 0);'),
                ('debug_assert ! ( is_declaration_utility . is_none ( ) ) ;', 'assert(is_declaration_utility is None);'),
                ('match & assign . value { Scalar ( Word { units , .. } ) => units , _ => panic ! ( "Assign::try_from produced a non-scalar value {:?}" , assign . value ) , }', 'verif_scalar_units(&assign.value)'),
                ('Ok ( Rec :: Parsed ( ( ! result . is_empty ( ) ) . then ( | | result . into ( ) ) ) )', 'Ok(Rec::Parsed(verif_finish(result)))'),
            ],
            'ghost_before': [('let token = match self . take_token_manual (', 'proof { verif_wlog = verif_wlog.push(result.words@.len() as nat); }')],
            'ensures': [
                # the caller is told to start over only when nothing at all was consumed for this command: no redirection was
                # parsed and the replaced token was the first one offered
                'r matches Ok(Rec::AliasSubstituted) ==> ' + M1 + '.redirs == ' + M0 + '.redirs && ' + M1 + '.offers.len() == ' + M0 + '.offers.len() + 1',
                M1 + '.offers.len() >= ' + M0 + '.offers.len() && ' + M1 + '.redirs >= ' + M0 + '.redirs',
            ],
            'loops': {0: {'invariant': [
                'self.mon@.offers.len() == ' + M0 + '.offers.len() + verif_wlog.len()', 'self.mon@.redirs >= ' + M0 + '.redirs',
                # C17: a token is offered in command position exactly while no word of the command has been collected
                'forall|k: int| 0 <= k < verif_wlog.len() ==> (#[trigger] self.mon@.offers[' + M0 + '.offers.len() + k]).0 == (verif_wlog[k] == 0)',
                # nothing consumed so far <==> the lists are empty (what decides whether the caller has to start over)
                '(result.assigns@.len() == 0 && result.words@.len() == 0 && result.redirs@.len() == 0) ==> self.mon@.redirs == ' + M0 + '.redirs && self.mon@.offers.len() == ' + M0 + '.offers.len()',
                'is_declaration_utility is Some ==> result.words@.len() > 0',
            ]}}}),
        ('@raw', '}\n'),
    ],
}
