// ---------------------------------------------------------------------------
// Prelude of unit globtop (property C05, kernel): yash-semantics/src/expansion/glob.rs glob(), the top of pathname expansion.
// C05 "in sorted order; if nothing matches, or `noglob` is set, the result is the field itself with quotes removed": with noglob
// nothing is searched and the answer is exactly the field with quotes removed; otherwise the directory search runs exactly
// once, over the characters of the field; an interrupted search hands on the interrupt; an empty result gives the field
// itself with quotes removed; otherwise the answer is the search's results, all of them and nothing else, sorted by value.
//
// Hand-written model text (ASSUMED): the directory search SearchEnv::search_dir (the walk itself: NOT under contract),
// AttrField::remove_quotes_and_strip, the sort (sort_unstable_by on the values: sorted and a permutation) and the two
// iterator types inside `Glob` (std Once / vec::IntoIter: a one-element and a many-element answer) are opaque / reduced.
// ---------------------------------------------------------------------------
pub trait Fstat {} pub trait Open {} pub trait Select {} pub trait Signals {} pub trait WaitForSignals {}
pub struct Location { pub verif_opaque: u8 }
pub struct AttrChar { pub verif_c: int }
pub struct AttrField { pub chars: Vec<AttrChar>, pub origin: Location }
pub struct Field { pub verif_value: int, pub origin: Location }
pub struct Interrupted { pub verif_opaque: u8 }
pub uninterp spec fn unquoted(chars: Seq<AttrChar>) -> int;
impl AttrField {
    /// quote removal + stripping of the attributes: the field itself as a plain string
    #[verifier::external_body]
    pub fn remove_quotes_and_strip(self) -> (r: Field) ensures r.verif_value == unquoted(self.chars@) { unimplemented!() }
}
/// the answer of pathname expansion (glob.rs Inner, with std's Once / vec::IntoIter reduced to what they hold)
pub enum Inner { One(Result<Field, Interrupted>), Many(Vec<Field>) }
impl Inner {
    pub fn from_field(f: Field) -> (r: Inner) ensures r == Inner::One(Ok::<Field, Interrupted>(f)) { Inner::One(Ok(f)) }
    pub fn from_interrupted(i: Interrupted) -> (r: Inner) ensures r == Inner::One(Err::<Field, Interrupted>(i)) { Inner::One(Err(i)) }
}
pub struct Glob<'a, S> { pub inner: Inner, pub verif_env: core::marker::PhantomData<&'a mut Env<S>> }
impl<'a, S> Glob<'a, S> {
    pub fn from(inner: Inner) -> (r: Glob<'a, S>) ensures r.inner == inner { Glob { inner, verif_env: core::marker::PhantomData } }
}
pub enum ShellOption { Glob, Other(u8) }
pub struct OptionSet { pub verif_noglob: bool }
impl OptionSet {
    #[verifier::external_body]
    pub fn get(&self, o: ShellOption) -> (r: State) ensures o is Glob ==> (r == State::Off <==> self.verif_noglob) { unimplemented!() }
}
impl vstd::std_specs::cmp::PartialEqSpecImpl for State {
    open spec fn obeys_eq_spec() -> bool { true }
    open spec fn eq_spec(&self, other: &State) -> bool { *self == *other }
}
pub struct Env<S> { pub options: OptionSet, pub searches: Ghost<Seq<Seq<AttrChar>>>, pub system: S }
impl<S> Env<S> {
    #[verifier::external_body]
    pub fn is_interactive(&self) -> bool { unimplemented!() }
    #[verifier::external_body]
    pub fn sigint_has_default_action(&self) -> bool { unimplemented!() }
}
pub struct SearchEnv<'e, S> { pub env: &'e mut Env<S>, pub interruptible: bool, pub prefix: String, pub origin: Location, pub results: Vec<Field> }
impl<'e, S> SearchEnv<'e, S> {
    /// the directory walk: fills `results` (NOT under contract)
    #[verifier::external_body]
    pub fn search_dir(&mut self, suffix: &Vec<AttrChar>) -> (r: std::ops::ControlFlow<Interrupted>)
        ensures mut_ref_future(final(self).env) == mut_ref_future(old(self).env), final(self).env.searches@ == old(self).env.searches@.push(suffix@), final(self).env.options == old(self).env.options,
            final(self).origin == old(self).origin
    { unimplemented!() }
}
#[verifier::external_body]
pub fn verif_new_prefix() -> String { String::with_capacity(1024) }
pub open spec fn values(v: Seq<Field>) -> Seq<int> { Seq::new(v.len(), |i: int| v[i].verif_value) }
/// the order of path names (byte-wise comparison of the strings): uninterpreted
pub uninterp spec fn le_value(a: int, b: int) -> bool;
/// `results.sort_unstable_by(|a, b| a.value.cmp(&b.value))` (std): sorted by value, the same fields
#[verifier::external_body]
pub fn verif_sort(results: &mut Vec<Field>)
    ensures values(final(results)@).to_multiset() == values(old(results)@).to_multiset(), final(results)@.len() == old(results)@.len(),
        forall|i: int, j: int| 0 <= i < j < final(results)@.len() ==> le_value(#[trigger] final(results)@[i].verif_value, #[trigger] final(results)@[j].verif_value)
{ unimplemented!() }
