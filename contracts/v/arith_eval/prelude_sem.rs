// Semantics of the binary operators (unit arith_eval), written from the property statement.
/// Exact value of `l op r` over the integers; None = undefined in C (error required).
/// Bitwise operators act on the two's complement representation.
pub open spec fn sem_bin(op: BinaryOperator, l: int, r: int) -> Option<int>
    recommends fits(l), fits(r)
{
    match op {
        BinaryOperator::LogicalOr => Some(b2i(l != 0 || r != 0)),
        BinaryOperator::LogicalAnd => Some(b2i(l != 0 && r != 0)),
        BinaryOperator::BitwiseOr | BinaryOperator::BitwiseOrAssign => Some(((l as i64) | (r as i64)) as int),
        BinaryOperator::BitwiseXor | BinaryOperator::BitwiseXorAssign => Some(((l as i64) ^ (r as i64)) as int),
        BinaryOperator::BitwiseAnd | BinaryOperator::BitwiseAndAssign => Some(((l as i64) & (r as i64)) as int),
        BinaryOperator::EqualTo => Some(b2i(l == r)),
        BinaryOperator::NotEqualTo => Some(b2i(l != r)),
        BinaryOperator::LessThan => Some(b2i(l < r)),
        BinaryOperator::GreaterThan => Some(b2i(l > r)),
        BinaryOperator::LessThanOrEqualTo => Some(b2i(l <= r)),
        BinaryOperator::GreaterThanOrEqualTo => Some(b2i(l >= r)),
        BinaryOperator::ShiftLeft | BinaryOperator::ShiftLeftAssign =>
            if l < 0 || r < 0 || r >= 64 { None } else { Some(l * pow2(r as nat)) },
        BinaryOperator::ShiftRight | BinaryOperator::ShiftRightAssign =>
            // arithmetic shift = floor division by 2^r (Verus `/` on int with a positive divisor is floor)
            if r < 0 || r >= 64 { None } else { Some(l / (pow2(r as nat) as int)) },
        BinaryOperator::Add | BinaryOperator::AddAssign => Some(l + r),
        BinaryOperator::Subtract | BinaryOperator::SubtractAssign => Some(l - r),
        BinaryOperator::Multiply | BinaryOperator::MultiplyAssign => Some(l * r),
        BinaryOperator::Divide | BinaryOperator::DivideAssign => if r == 0 { None } else { Some(tdiv(l, r)) },
        BinaryOperator::Remainder | BinaryOperator::RemainderAssign => if r == 0 { None } else { Some(trem(l, r)) },
        BinaryOperator::Assign => Some(r),
    }
}

/// The contract of a binary operation: exact value, or an error exactly when the exact
/// value is undefined or does not fit.  One concession, stated in DESIGN.md: for
/// `i64::MIN % -1` (quotient overflows, remainder 0) C leaves the behaviour undefined;
/// both "error" and the exact value 0 are accepted -- never a wrong value.
pub open spec fn bin_contract<E>(op: BinaryOperator, l: i64, r: i64, res: Result<Value, E>) -> bool {
    let rem_corner = (op is Remainder || op is RemainderAssign) && l == i64::MIN && r == -1;
    match sem_bin(op, l as int, r as int) {
        None => res is Err,
        Some(v) =>
            if rem_corner { res is Err || res == Ok::<Value, E>(Value::Integer(0)) }
            else if fits(v) { res == Ok::<Value, E>(Value::Integer(v as i64)) }
            else { res is Err },
    }
}

