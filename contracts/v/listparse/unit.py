# Unit listparse: Parser::list, where `;` and `&` are read (kernel of C02).
LS = 'yash-syntax/src/parser/list.rs'
IMPL = "impl Parser<'_, '_>"
MOD_HEAD = '''    use vstd::prelude::*;
    use std::rc::Rc;
'''
M0 = 'old(self).mon@'
M1 = 'final(self).mon@'
P0 = M0 + '.parsed.len()'
S0 = M0 + '.seps.len()'
INNER = ('invariant_except_break self.mon@.parsed.len() == ' + P0 + ' + items@.len() '
         'invariant self.mon@.seps.len() == ' + S0 + ' + items@.len(), self.mon@.others == ' + M0 + '.others, '
         'forall|k: int| 0 <= k < items@.len() ==> (#[trigger] items@[k]).and_or.verif_id == self.mon@.parsed[' + P0 + ' + k], '
         'forall|k: int| 0 <= k < items@.len() ==> ((#[trigger] items@[k]).async_flag is Some <==> self.mon@.seps[' + S0 + ' + k]), '
         'ensures self.mon@.parsed.len() == ' + P0 + ' + items@.len() + (if verif_lv is Some { 1int } else { 0int }), verif_lv matches Some(a) ==> self.mon@.parsed.last() == a.verif_id,')
UNIT = {
    'name': 'listparse',
    'property': 'C02',
    'rlimit': 80,
    'verus_args': ['--edition=2024'],
    'vacuity_floor': 1,
    'controls': {LS + "::Parser<'_, '_>::list": {'ensures': {'append': 'false'}}},
    'control_expect': ['::list'],
    'items': [
        ('@raw', 'pub mod lp {\n' + MOD_HEAD),
        ('@file', 'prelude.rs'),
        (LS, [IMPL, 'fn list'], {'ret': 'r', 'rewrites': ['strip-async'],
            'attrs': ['#[verifier::loop_isolation(false)]', '#[verifier::allow_complex_invariants]', '#[verifier::exec_allows_no_decreases_clause]'],
            'token_rewrites': [
                # rule type-annotation (`vec![]` is the empty vector)
                ('let mut items = vec ! [ ] ;', 'let mut items: Vec<Item> = Vec::new();'),
                # rule loop-break-value (assignment form)
                ('result = loop { if let Rec :: Parsed ( result ) = self . and_or_list ( ) . await ? { break result ; } } ;',
                 'let verif_lv: Option<AndOrList>; loop ' + INNER + ' { if let Rec::Parsed(result) = self.and_or_list()? { verif_lv = result; break; } } result = verif_lv;'),
            ],
            'ensures': [
                # an alias substitution in first position: nothing has been consumed
                'r matches Ok(Rec::AliasSubstituted) ==> ' + M1 + ' == ' + M0,
                # the list: exactly the and-or lists parsed, in order; nothing but `;` and `&` consumed, one after each item but
                # possibly the last; an item is asynchronous exactly when the separator right after it was `&`
                'r matches Ok(Rec::Parsed(l)) ==> ' + M1 + '.others == ' + M0 + '.others && ' + M1 + '.parsed.len() == ' + P0 + ' + l.0@.len() '
                '&& (forall|k: int| 0 <= k < l.0@.len() ==> (#[trigger] l.0@[k]).and_or.verif_id == ' + M1 + '.parsed[' + P0 + ' + k]) '
                '&& (' + M1 + '.seps.len() == ' + S0 + ' + l.0@.len() || (l.0@.len() > 0 && ' + M1 + '.seps.len() == ' + S0 + ' + l.0@.len() - 1)) '
                '&& (forall|k: int| 0 <= k < l.0@.len() ==> ((#[trigger] l.0@[k]).async_flag is Some <==> (' + S0 + ' + k < ' + M1 + '.seps.len() && ' + M1 + '.seps[' + S0 + ' + k])))',
            ],
            'loops': {0: {'invariant': [
                'self.mon@.others == ' + M0 + '.others',
                'self.mon@.parsed.len() == ' + P0 + ' + items@.len() + (if result is Some { 1int } else { 0int })',
                'result matches Some(a) ==> self.mon@.parsed.last() == a.verif_id',
                'self.mon@.seps.len() == ' + S0 + ' + items@.len()',
                'forall|k: int| 0 <= k < items@.len() ==> (#[trigger] items@[k]).and_or.verif_id == self.mon@.parsed[' + P0 + ' + k]',
                'forall|k: int| 0 <= k < items@.len() ==> ((#[trigger] items@[k]).async_flag is Some <==> self.mon@.seps[' + S0 + ' + k])',
            ]}}}),
        ('@raw', '}\n'),
    ],
}
