// ---- specification of the trap table -------------------------------------------------------------
impl TrapSet {
    pub open spec fn tab(&self) -> Map<Condition, GrandState> { self.traps@ }
}
/// C11 for the whole table: for every signal with a record, the installed disposition is the one wanted
pub open spec fn tinv<S: SignalSystem>(t: Map<Condition, GrandState>, system: S) -> bool {
    forall|sig: signal::Number| #[trigger] t.contains_key(Condition::Signal(sig)) ==> system.installed(sig) == t[Condition::Signal(sig)].wanted()
}
/// every record keeps action, origin, pending flag and internal disposition; no parent state is remembered
pub open spec fn parents_cleared(t0: Map<Condition, GrandState>, t1: Map<Condition, GrandState>) -> bool {
    &&& t1.dom() =~= t0.dom()
    &&& forall|c: Condition| #[trigger] t0.contains_key(c) ==> t1[c].cur() == t0[c].cur() && t1[c].internal() == t0[c].internal() && t1[c].parent() is None
}
/// everything but the record of `c` is the same
pub open spec fn same_but(t0: Map<Condition, GrandState>, t1: Map<Condition, GrandState>, c: Condition) -> bool {
    forall|d: Condition| d != c ==> (#[trigger] t1.contains_key(d) <==> t0.contains_key(d)) && (t0.contains_key(d) ==> t1[d] == t0[d])
}
/// no record disappears and every record keeps the user's action, origin, pending flag and parent state
pub open spec fn actions_kept(t0: Map<Condition, GrandState>, t1: Map<Condition, GrandState>) -> bool {
    forall|c: Condition| #[trigger] t0.contains_key(c) ==> t1.contains_key(c) && t1[c].cur() == t0[c].cur() && t1[c].parent() == t0[c].parent()
}
/// if there is a record for `sig`, its internal disposition is `d`
pub open spec fn want_internal(t: Map<Condition, GrandState>, sig: signal::Number, d: Disposition) -> bool {
    t.contains_key(Condition::Signal(sig)) ==> t[Condition::Signal(sig)].internal() == d
}

// ---- iteration over the table by mutable reference --------------------------------------------------------
/// Model of `hash_map::IterMut` / `ValuesMut` (for `for (k, v) in &mut map` and `for v in map.values_mut()`; std:
/// `IntoIterator for &mut HashMap` is `iter_mut()`, `values_mut()` is `iter_mut()` without the keys).  ASSUMED: every
/// entry of the map is yielded exactly once, in some order, as a mutable reference to its value; when the references
/// expire the map holds their final values under the same keys.
#[verifier::external_body]
#[verifier::reject_recursive_types(K)]
#[verifier::reject_recursive_types(V)]
pub struct VerifIterMut<'a, K, V> { it: std::collections::hash_map::IterMut<'a, K, V> }
impl<'a, K, V> VerifIterMut<'a, K, V> {
    /// keys not yet yielded
    pub uninterp spec fn todo(&self) -> Set<K>;
    /// the mutable reference each key stands for (fixed when the iterator is made)
    pub uninterp spec fn slots(&self) -> Map<K, &'a mut V>;
    #[verifier::external_body]
    pub fn next(&mut self) -> (r: Option<(&'a K, &'a mut V)>)
        ensures
            final(self).slots() == old(self).slots(),
            match r {
                None => old(self).todo() =~= Set::<K>::empty() && final(self).todo() == old(self).todo(),
                Some((k, v)) => old(self).todo().contains(*k) && final(self).todo() == old(self).todo().remove(*k) && v == old(self).slots()[*k],
            },
    { self.it.next() }
}
#[verifier::external_body]
pub fn verif_iter_mut<'a, K, V>(m: &'a mut BTreeMap<K, V>) -> (it: VerifIterMut<'a, K, V>)
    ensures
        it.todo() == old(m)@.dom(),
        it.slots().dom() == old(m)@.dom(),
        forall|k: K| #[trigger] old(m)@.contains_key(k) ==> *it.slots()[k] == old(m)@[k],
        final(m)@.dom() == old(m)@.dom(),
        forall|k: K| #[trigger] old(m)@.contains_key(k) ==> final(m)@[k] == *final(it.slots()[k]),
{ VerifIterMut { it: m.iter_mut() } }

// ---- subshell entry on the table ----------------------------------------------------------------------------
/// the system refuses nothing (`TrapSet::enter_subshell` ignores errors; what it guarantees, it guarantees for a
/// system that carries out what it is asked)
pub open spec fn norefuse<S: SignalSystem>(system: S) -> bool {
    forall|s: signal::Number, d: Disposition| !system.refuses(s, d)
}
/// SIGCHLD is none of the signals the options of subshell entry are about (true of every system; the clauses below
/// are stated for such systems so that they do not depend on the order in which the code tests the signal numbers)
pub open spec fn chld_distinct<S: SignalSystem>() -> bool {
    S::SIGCHLD != S::SIGINT && S::SIGCHLD != S::SIGQUIT && S::SIGCHLD != S::SIGTSTP && S::SIGCHLD != S::SIGTTIN && S::SIGCHLD != S::SIGTTOU
}
pub open spec fn is_stopper<S: SignalSystem>(s: signal::Number) -> bool { s == S::SIGTSTP || s == S::SIGTTIN || s == S::SIGTTOU }
/// documented: "If ignore_sigint_sigquit is true, this function sets the dispositions for SIGINT and SIGQUIT to Ignore";
/// "If keep_internal_dispositions_for_stoppers is true and the internal dispositions have been enabled for SIGTSTP,
/// SIGTTIN, and SIGTTOU, this function leaves the dispositions for those signals set to Ignore"
pub open spec fn forced_ignore<S: SignalSystem>(c: Condition, ign: bool, keep: bool, internal: Disposition) -> bool {
    c is Signal && ((ign && (c->Signal_0 == S::SIGINT || c->Signal_0 == S::SIGQUIT)) || (keep && is_stopper::<S>(c->Signal_0) && internal != Disposition::Default))
}
/// What subshell entry makes of one record (C08: "traps with command actions are reset to default while ignored
/// signals stay ignored"; documented: internal dispositions are cleared except for SIGCHLD)
pub open spec fn rec_entered<S: SignalSystem>(c: Condition, pre: GrandState, post: GrandState, ign: bool, keep: bool) -> bool {
    let forced = forced_ignore::<S>(c, ign, keep, pre.internal());
    &&& post.internal() == (if c == Condition::Signal(S::SIGCHLD) { pre.internal() } else { Disposition::Default })
    &&& forced ==> post.cur().action == Action::Ignore
    &&& forced && post.cur().origin == Origin::Inherited ==> pre.cur().action == Action::Ignore && pre.cur().origin == Origin::Inherited
    &&& !forced && pre.cur().action is Command ==> post.cur() == (TrapState { action: Action::Default, origin: Origin::Subshell, pending: false })
    &&& !forced && !(pre.cur().action is Command) ==> post.cur() == pre.cur()
    &&& pre.cur().action == Action::Ignore ==> post.cur().action == Action::Ignore
    &&& pre.cur().action == Action::Ignore && pre.cur().origin == Origin::Inherited ==> post.cur().origin == Origin::Inherited
}
/// the parent state remembered for a record: the trap that was reset, nothing otherwise (t1: parent states cleared)
pub open spec fn parent_entered(pre: GrandState, post: GrandState) -> bool {
    post.parent() == (if pre.cur().action is Command { Some(pre.cur()) } else { None::<TrapState> })
}
#[verifier::prophetic]
pub open spec fn loop1_inv<S: SignalSystem>(t1: Map<Condition, GrandState>, slots: Map<Condition, &mut GrandState>, todo: Set<Condition>, sys1: S, sys: S, ign: bool, keep: bool) -> bool {
    &&& forall|s: signal::Number, d: Disposition| sys.refuses(s, d) == sys1.refuses(s, d)
    // records not yet visited: untouched, and what is installed for them is what they want
    &&& forall|c: Condition| #[trigger] todo.contains(c) && c is Signal ==> sys.installed(c->Signal_0) == t1[c].wanted()
    // signals without a record: untouched
    &&& forall|s: signal::Number| #![trigger sys.installed(s)] !t1.contains_key(Condition::Signal(s)) ==> sys.installed(s) == sys1.installed(s)
    // records visited
    &&& forall|c: Condition| #[trigger] t1.contains_key(c) && !todo.contains(c) ==> ({
            let post = *final(slots[c]);
            &&& t1[c].parent() is None ==> parent_entered(t1[c], post)
            &&& norefuse(sys1) && chld_distinct::<S>() ==> rec_entered::<S>(c, t1[c], post, ign, keep)
            &&& norefuse(sys1) && c is Signal ==> sys.installed(c->Signal_0) == post.wanted()
        })
}
pub open spec fn loop2_inv<S: SignalSystem>(t2: Map<Condition, GrandState>, t: Map<Condition, GrandState>, sys2: S, sys: S, i: int) -> bool {
    &&& forall|s: signal::Number, d: Disposition| sys.refuses(s, d) == sys2.refuses(s, d)
    &&& forall|c: Condition| #[trigger] t2.contains_key(c) ==> t.contains_key(c) && t[c] == t2[c]
    &&& forall|c: Condition| #[trigger] t.contains_key(c) && !t2.contains_key(c) ==> ((i >= 1 && c == Condition::Signal(S::SIGINT)) || (i >= 2 && c == Condition::Signal(S::SIGQUIT)))
            && t[c].cur().action == Action::Ignore && t[c].parent() is None && t[c].internal() == Disposition::Default
            && sys.installed(c->Signal_0) == t[c].wanted()
    &&& forall|s: signal::Number| (t2.contains_key(Condition::Signal(s)) || !(#[trigger] t.contains_key(Condition::Signal(s)))) ==> sys.installed(s) == sys2.installed(s)
    &&& norefuse(sys2) ==> (i >= 1 ==> t.contains_key(Condition::Signal(S::SIGINT))) && (i >= 2 ==> t.contains_key(Condition::Signal(S::SIGQUIT)))
}
