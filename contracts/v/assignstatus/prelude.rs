// ---------------------------------------------------------------------------
// Prelude of unit assignstatus (property C10 / C02, kernel): the exit status a list of assignments leaves
// (yash-semantics/src/assign.rs perform_assignments).  XCU 2.9.1: a simple command without a command name has the exit
// status of the LAST command substitution performed (zero if none) - which is what makes `x=$(false) y=1` a failing
// command under errexit although a later assignment performs no substitution.
//
// Hand-written model text (ASSUMED): performing one assignment is an opaque call (async: expansion, command
// substitution, the variable store) whose outcome is recorded in a ghost log of the reduced Env.
// ---------------------------------------------------------------------------
/// ASSUMED contract of Option::or
pub assume_specification<T>[ Option::<T>::or ](a: Option<T>, b: Option<T>) -> (r: Option<T>)
    ensures r == (if a is Some { a } else { b });

pub trait Runtime {}
pub struct Assign { pub verif_id: int }
pub struct XTrace { pub verif_opaque: u8 }
pub struct Error { pub verif_opaque: u8 }
pub type Result<T = ()> = std::result::Result<T, Error>;
#[derive(Clone, Copy)]
pub enum Scope { Global, Local, Volatile }
/// one performed assignment: which one, and what came out (the exit status of its last command substitution, if any)
pub struct Done { pub what: int, pub outcome: std::result::Result<Option<ExitStatus>, Error> }
pub struct Env<S> { pub verif_log: Ghost<Seq<Done>>, pub system: S }
#[verifier::external_body]
pub fn perform_assignment<S>(env: &mut Env<S>, assign: &Assign, scope: Scope, export: bool, xtrace: Option<&mut XTrace>) -> (r: Result<Option<ExitStatus>>)
    ensures final(env).verif_log@ == old(env).verif_log@.push(Done { what: assign.verif_id, outcome: r })
{ unimplemented!() }
/// `xtrace.as_deref_mut()`: a shorter re-borrow of the optional tracer (std; ASSUMED to hand the tracer on)
#[verifier::external_body]
pub fn verif_reborrow<'a, 'b>(x: &'a mut Option<&'b mut XTrace>) -> (r: Option<&'a mut XTrace>) { x.as_deref_mut() }

/// the exit status of the last command substitution among the first n performed assignments (None if there was none)
pub open spec fn last_subst_status(log: Seq<Done>, from: int, n: int) -> Option<ExitStatus>
    decreases n
{
    if n <= 0 { None } else {
        match log[from + n - 1].outcome {
            Ok(Some(s)) => Some(s),
            _ => last_subst_status(log, from, n - 1),
        }
    }
}

/// the status so far depends only on what has been recorded so far
pub proof fn lemma_status_prefix(a: Seq<Done>, b: Seq<Done>, from: int, n: int)
    requires 0 <= from, 0 <= n, from + n <= a.len(), from + n <= b.len(), forall|k: int| 0 <= k < from + n ==> a[k] == b[k],
    ensures last_subst_status(a, from, n) == last_subst_status(b, from, n),
    decreases n
{
    if n > 0 { lemma_status_prefix(a, b, from, n - 1); }
}
