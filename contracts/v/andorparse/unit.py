# Unit andorparse: Parser::and_or_list, where `&&` and `||` are read (kernel of C02).
AO = 'yash-syntax/src/parser/and_or.rs'
IMPL = "impl Parser<'_, '_>"
MOD_HEAD = '''    use vstd::prelude::*;
'''
M0 = 'old(self).mon@'
M1 = 'final(self).mon@'
P0 = M0 + '.parsed.len()'
O0 = M0 + '.ops.len()'
FRAME = ('forall|k: int| 0 <= k < rest@.len() ==> (#[trigger] rest@[k]).1.verif_id == self.mon@.parsed[' + P0 + ' + 1 + k], '
         'forall|k: int| 0 <= k < rest@.len() ==> ((#[trigger] rest@[k]).0 is AndThen <==> self.mon@.ops[' + O0 + ' + k]), '
         'self.mon@.parsed[' + P0 + ' as int] == first.verif_id, self.mon@.others == ' + M0 + '.others, ')
SKIP = ('invariant self.mon@.parsed.len() == ' + P0 + ' + 1 + rest@.len(), self.mon@.ops.len() == ' + O0 + ' + rest@.len() + 1, '
        'self.mon@.ops.last() == (condition is AndThen), ' + FRAME)
INNER = ('invariant_except_break self.mon@.parsed.len() == ' + P0 + ' + 1 + rest@.len() '
         'invariant self.mon@.ops.len() == ' + O0 + ' + rest@.len() + 1, self.mon@.ops.last() == (condition is AndThen), ' + FRAME +
         'ensures self.mon@.parsed.len() == ' + P0 + ' + 1 + rest@.len() + (if verif_lv is Some { 1int } else { 0int }), verif_lv matches Some(p) ==> self.mon@.parsed.last() == p.verif_id,')
UNIT = {
    'name': 'andorparse',
    'property': 'C02',
    'rlimit': 80,
    'verus_args': ['--edition=2024'],
    'vacuity_floor': 1,
    'controls': {AO + "::Parser<'_, '_>::and_or_list": {'ensures': {'append': 'false'}}},
    'control_expect': ['and_or_list'],
    'items': [
        ('@raw', 'pub mod ao {\n' + MOD_HEAD),
        ('@file', 'prelude.rs'),
        (AO, [IMPL, 'fn and_or_list'], {'ret': 'r', 'rewrites': ['strip-async'],
            'attrs': ['#[verifier::loop_isolation(false)]', '#[verifier::allow_complex_invariants]', '#[verifier::exec_allows_no_decreases_clause]'],
            'token_rewrites': [
                ('let mut rest = vec ! [ ] ;', 'let mut rest: Vec<(AndOr, Pipeline)> = Vec::new();'),
                ('while self . newline_and_here_doc_contents ( ) . await ? { }', 'while self.newline_and_here_doc_contents()? ' + SKIP + ' {}'),
                # rule loop-break-value
                ('let maybe_pipeline = loop { if let Rec :: Parsed ( maybe_pipeline ) = self . pipeline ( ) . await ? { break maybe_pipeline ; } } ;',
                 'let verif_lv: Option<Pipeline>; loop ' + INNER + ' { if let Rec::Parsed(maybe_pipeline) = self.pipeline()? { verif_lv = maybe_pipeline; break; } } let maybe_pipeline = verif_lv;'),
            ],
            'ensures': [
                # an alias substitution in first position, or no pipeline at all: nothing has been consumed
                'r matches Ok(Rec::AliasSubstituted) ==> ' + M1 + ' == ' + M0,
                'r matches Ok(Rec::Parsed(None)) ==> ' + M1 + ' == ' + M0,
                # the and-or list: the pipelines parsed, in order; between every two of them exactly one `&&` / `||` was consumed, and
                # the pair holds AndThen exactly for `&&`; nothing else (but newlines after an operator) was consumed
                'r matches Ok(Rec::Parsed(Some(l))) ==> ' + M1 + '.others == ' + M0 + '.others && ' + M1 + '.parsed.len() == ' + P0 + ' + 1 + l.rest@.len() && ' + M1 + '.ops.len() == ' + O0 + ' + l.rest@.len() '
                '&& l.first.verif_id == ' + M1 + '.parsed[' + P0 + ' as int] '
                '&& (forall|k: int| 0 <= k < l.rest@.len() ==> (#[trigger] l.rest@[k]).1.verif_id == ' + M1 + '.parsed[' + P0 + ' + 1 + k] && (l.rest@[k].0 is AndThen <==> ' + M1 + '.ops[' + O0 + ' + k]))',
            ],
            'loops': {0: {'invariant': [
                'self.mon@.parsed.len() == ' + P0 + ' + 1 + rest@.len()', 'self.mon@.ops.len() == ' + O0 + ' + rest@.len()',
                'self.mon@.parsed[' + P0 + ' as int] == first.verif_id', 'self.mon@.others == ' + M0 + '.others',
                'forall|k: int| 0 <= k < rest@.len() ==> (#[trigger] rest@[k]).1.verif_id == self.mon@.parsed[' + P0 + ' + 1 + k]',
                'forall|k: int| 0 <= k < rest@.len() ==> ((#[trigger] rest@[k]).0 is AndThen <==> self.mon@.ops[' + O0 + ' + k])',
            ]}}}),
        ('@raw', '}\n'),
    ],
}
