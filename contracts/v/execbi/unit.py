# Unit execbi: the `exec` built-in (kernel shared by C09 and C10).
SEM = 'yash-env/src/semantics.rs'
BI = 'yash-env/src/builtin.rs'
EX = 'yash-builtin/src/exec.rs'
MOD_HEAD = '''    use vstd::prelude::*;
    use std::ops::ControlFlow::{self, Break};
    use std::ffi::c_int;
'''
OPS = 'args_operands(args@)'
L0 = 'old(env).log@'
L1 = 'final(env).log@'
UNIT = {
    'name': 'execbi',
    'property': 'C09',
    'rlimit': 60,
    'verus_args': ['--edition=2024'],
    'vacuity_floor': 2,
    'items': [
        ('@raw', 'pub mod semantics { pub type Result<T = ()> = std::ops::ControlFlow<crate::xb::Divert, T>; }\npub use xb::builtin::Result;\n'),
        ('@raw', 'pub mod xb {\n' + MOD_HEAD),
        (SEM, ['struct ExitStatus']),
        (SEM, ['impl ExitStatus#1', 'const SUCCESS']), (SEM, ['impl ExitStatus#1', 'const NOT_FOUND']),
        (SEM, ['enum Divert']),
        ('@raw', 'pub use Divert::Abort;\npub mod builtin {\n    use super::*;\n'),
        (BI, ['struct Result'], {'pub_fields': True}),
        (BI, ['impl Result', 'fn new'], {'ret': 'r', 'ensures': ['r.exit_status == exit_status', 'r.divert == ControlFlow::<Divert, ()>::Continue(())', '!r.should_retain_redirs']}),
        (BI, ['impl Result', 'fn set_exit_status'], {'ensures': ['*final(self) == (Result { exit_status, ..*old(self) })']}),
        (BI, ['impl Result', 'fn set_divert'], {'ensures': ['*final(self) == (Result { divert, ..*old(self) })']}),
        (BI, ['impl Result', 'fn retain_redirs'], {'ensures': ['*final(self) == (Result { should_retain_redirs: true, ..*old(self) })']}),
        ('@raw', '    impl Result { pub fn default() -> (r: Result) ensures r.exit_status == ExitStatus(0), r.divert is Continue, !r.should_retain_redirs { Result::new(ExitStatus(0)) } }\n}\n    pub use builtin::Result;\n'),
        ('@file', 'prelude.rs'),
        (EX, ['fn main'], {'ret': 'r', 'rewrites': ['strip-async'],
            'token_rewrites': [
                ('parse_arguments ( & [ ] , Mode :: with_env ( env ) , args )', 'verif_parse_arguments(Mode::with_env(env), args)'),
                ('args . first ( )', 'verif_first(&args)'),
                ("let path = if name . value . contains ( '/' ) { CString :: new ( name . value . clone ( ) ) . ok ( ) } else { search_path ( env , name . value . as_str ( ) ) } ;", 'let ghost verif_env1 = *env; let ghost verif_name = name.verif_id; let path = verif_find_path(env, name);'),
                ('let Err ( e ) = replace_current_process ( env , path , args ) . await ;', 'let e = verif_replace(env, path, args);'),
                ('let _ = report_failure ( env , & report ) . await ;', 'verif_report_exec_failure(env, &report);'),
                ('let _ = report_failure ( env , NotFound ( name ) ) . await ;', 'verif_report_not_found(env, NotFound(name));'),
            ],
            'ensures': [
                # C09: every well-formed exec asks to retain its redirections
                'args_parse_ok(args@) ==> r.should_retain_redirs',
                '!args_parse_ok(args@) ==> final(env).verif_errors@ == old(env).verif_errors@ + 1 && ' + L1 + ' == ' + L0,
                # no command name: nothing else happens, status 0, the shell goes on
                'args_parse_ok(args@) && ' + OPS + '.len() == 0 ==> r.exit_status == ExitStatus(0) && r.divert is Continue && ' + L1 + ' == ' + L0,
                # a command name: when the built-in comes back the utility was not executed: a non-interactive shell is aborted, an
                # interactive one goes on
                'args_parse_ok(args@) && ' + OPS + '.len() > 0 ==> (old(env).verif_interactive ==> r.divert is Continue) && (!old(env).verif_interactive ==> r.divert == ControlFlow::<Divert, ()>::Break(Divert::Abort(None)))',
                # found: the process image is replaced once, with the path found and all the operands; what that left in `$?` is the status
                '(args_parse_ok(args@) && ' + OPS + '.len() > 0 && path_of(*old(env), ' + OPS + '[0].verif_id) is Some) ==> ' + L1 + ' == ' + L0 + '.push(Ev::Replaced { path: path_of(*old(env), ' + OPS + '[0].verif_id)->0, args: field_ids(' + OPS + ') }).push(Ev::FailureReported) && r.exit_status == final(env).exit_status',
                # not found: one report, status 127, nothing is executed
                '(args_parse_ok(args@) && ' + OPS + '.len() > 0 && path_of(*old(env), ' + OPS + '[0].verif_id) is None) ==> ' + L1 + ' == ' + L0 + '.push(Ev::FailureReported) && r.exit_status == ExitStatus(127)',
            ]}),
        ('@raw', '}\n'),
    ],
}
