// ---------------------------------------------------------------------------
// Prelude of unit compoundlist (property C02, kernel): yash-syntax/src/parser/list.rs Parser::maybe_compound_list - the body of a
// compound command (the commands between `{` and `}`, `do` and `done`, `then` and `fi` ...).
// C02 "sequential lists ... brace groups ... if/while/until/for/case": the list handed out consists of the items of ALL the lists
// parsed, line after line, in order, none dropped and none twice; lines are separated by newline tokens only; the body ends at a
// clause delimiter (`}`, `done`, `fi`, `)` ...), which is looked at and NOT consumed; anything else there is a syntax error.
//
// Hand-written model text (ASSUMED): the parser is reduced to a monitor of what it consumed; list() (unit listparse has the real
// one), newline_and_here_doc_contents() (unit cmdline), peek_token, TokenId::is_clause_delimiter are opaque calls;
// `items.extend(list.0)` is Vec::extend at the vector type; `let list = loop { .. break list; .. }` by rule loop-break-value.
// ---------------------------------------------------------------------------
#[derive(Clone, Copy)] pub struct TokenId { pub verif_k: u8 }
pub uninterp spec fn clause_delimiter(id: TokenId) -> bool;
impl TokenId {
    #[verifier::external_body]
    pub fn is_clause_delimiter(self) -> (r: bool) ensures r == clause_delimiter(self) { unimplemented!() }
}
pub struct Location { pub verif_opaque: u8 }
impl Clone for Location { #[verifier::external_body] fn clone(&self) -> (r: Location) ensures r == *self { unimplemented!() } }
pub struct Word { pub location: Location }
pub struct LexToken { pub word: Word, pub id: TokenId, pub index: usize }
pub struct Item { pub verif_id: int }
pub struct List(pub Vec<Item>);
pub enum Rec<T> { AliasSubstituted, Parsed(T) }
pub enum SyntaxError { InvalidCommandToken, Other(u8) }
pub struct ErrorCause { pub verif_opaque: u8 }
impl From<SyntaxError> for ErrorCause { #[verifier::external_body] fn from(e: SyntaxError) -> ErrorCause { unimplemented!() } }
pub struct Error { pub cause: ErrorCause, pub location: Location }
pub type Result<T> = std::result::Result<T, Error>;
/// what was consumed: the items of the lists parsed, one after the other; the newlines taken
pub struct Mon { pub items: Seq<int>, pub newlines: nat }
pub struct Parser<'a, 'b> { pub mon: Ghost<Mon>, pub verif_next: Ghost<TokenId>, pub verif_pd: core::marker::PhantomData<(&'a u8, &'b u8)> }
pub open spec fn ids(s: Seq<Item>) -> Seq<int> { Seq::new(s.len(), |i: int| s[i].verif_id) }
impl Parser<'_, '_> {
    #[verifier::external_body]
    pub fn list(&mut self) -> (r: Result<Rec<List>>)
        ensures final(self).mon@ == (match r { Ok(Rec::Parsed(l)) => Mon { items: old(self).mon@.items + ids(l.0@), ..old(self).mon@ }, _ => old(self).mon@ })
    { unimplemented!() }
    #[verifier::external_body]
    pub fn newline_and_here_doc_contents(&mut self) -> (r: Result<bool>)
        ensures final(self).mon@ == (if r matches Ok(true) { Mon { newlines: old(self).mon@.newlines + 1, ..old(self).mon@ } } else { old(self).mon@ })
    { unimplemented!() }
    #[verifier::external_body]
    pub fn peek_token(&mut self) -> (r: Result<&LexToken>)
        ensures final(self).mon@ == old(self).mon@, r matches Ok(t) ==> t.id == final(self).verif_next@
    { unimplemented!() }
}
/// `items.extend(list.0)`
#[verifier::external_body]
pub fn verif_extend(items: &mut Vec<Item>, more: Vec<Item>) ensures final(items)@ == old(items)@ + more@ { unimplemented!() }
