//! Kani harnesses for the byte-wise reader of the `read` built-in (yash-builtin/src/read/input.rs read_char), injected as
//! a child module of that file.  Kernel of property C18 ("how the input happens to be chunked by the underlying reads
//! never changes the commands executed"; "whatever follows ... remains available") and of C14 (nothing is lost).
//! Bounded stand-in: the input is any byte string of at most 4 bytes followed by end of input, and the system serves
//! every read with a SYMBOLIC number of bytes between 1 and what was asked for and is there (all chunkings).
//! Claims, for the real function: (1) the result depends on the bytes only, never on the chunking: it is the decoding
//! of the shortest prefix that is a complete UTF-8 character (or the error / end of input the byte string implies);
//! (2) exactly that prefix has been consumed from the descriptor - no byte of what follows; (2') when the bytes are not a
//! character, nothing beyond the first byte that shows it has been consumed (a later reader of the same input loses nothing).
#![allow(dead_code, unused_imports)]
use super::*;
use std::cell::Cell;
use std::future::{Future, Ready, ready};
use std::pin::pin;
use std::task::{Context, Poll, Waker};
use yash_env::job::Pid;
use yash_env::system::GetPid;

struct Scripted {
    data: [u8; 4],
    len: usize,
    pos: Cell<usize>,
}
impl Read for Scripted {
    fn read<'a>(&self, fd: Fd, buffer: &'a mut [u8]) -> impl Future<Output = Result<usize, Errno>> + use<'a> {
        assert!(fd == Fd::STDIN, "read_char reads the standard input only");
        let pos = self.pos.get();
        let avail = self.len - pos;
        let want = if buffer.len() < avail { buffer.len() } else { avail };
        let n = if want == 0 {
            0
        } else {
            // a read may return fewer bytes than asked for (a pipe written in pieces): any count from 1 to `want`
            let k: usize = kani::any();
            kani::assume(1 <= k && k <= want);
            k
        };
        let mut i = 0;
        while i < n {
            buffer[i] = self.data[pos + i];
            i += 1;
        }
        self.pos.set(pos + n);
        ready(Ok(n))
    }
}
impl Isatty for Scripted {
    fn isatty(&self, _fd: Fd) -> bool {
        false
    }
}
impl WriteAll for Scripted {
    fn write_all(&self, _fd: Fd, _data: &[u8]) -> impl Future<Output = Result<(), Errno>> {
        ready(Ok(()))
    }
}
impl GetPid for Scripted {
    fn getpid(&self) -> Pid {
        Pid(2)
    }
    fn getppid(&self) -> Pid {
        Pid(1)
    }
    fn getpgrp(&self) -> Pid {
        Pid(2)
    }
    fn getsid(&self, _pid: Pid) -> Result<Pid, Errno> {
        Ok(Pid(2))
    }
}

/// Stub for `RandomState::new` (std asks the OS for random hash keys, which Kani does not model): fixed keys.
fn fixed_random_state() -> std::hash::RandomState {
    unsafe { std::mem::transmute::<(u64, u64), std::hash::RandomState>((0, 0)) }
}

/// what a byte string followed by end of input means to a reader of one character, written from RFC 3629 / the
/// documentation of read_char: the shortest prefix that is a complete character, or an error
#[derive(PartialEq, Eq)]
enum Expect {
    Eof,
    Char(char, usize),
    /// invalid: the first k bytes are the shortest prefix that cannot start a character (or the input ends in mid-character: k = all)
    Invalid(usize),
}
fn expect(data: &[u8; 4], len: usize) -> Expect {
    if len == 0 {
        return Expect::Eof;
    }
    let mut k = 1;
    while k <= len {
        match std::str::from_utf8(&data[..k]) {
            Ok(s) => return Expect::Char(s.chars().next().unwrap(), k),
            Err(e) => {
                if e.error_len().is_some() {
                    return Expect::Invalid(k);
                }
            }
        }
        k += 1;
    }
    // the input ends in the middle of a character
    Expect::Invalid(len)
}

fn run(len: usize) {
    let data: [u8; 4] = kani::any();
    let system = Scripted { data, len, pos: Cell::new(0) };
    let mut env = Env::with_system(system);
    let r = {
        let fut = pin!(read_char(&mut env));
        let mut cx = Context::from_waker(Waker::noop());
        match fut.poll(&mut cx) {
            Poll::Ready(r) => r,
            Poll::Pending => panic!("the scripted system never blocks"),
        }
    };
    let consumed = env.system.pos.get();
    match expect(&data, len) {
        Expect::Eof => {
            assert!(r == Ok(None), "end of input is reported as no character");
            assert!(consumed == 0, "nothing is consumed at the end of input");
        }
        Expect::Char(c, k) => {
            assert!(r == Ok(Some(c)), "the character does not depend on how the reads were chunked");
            assert!(consumed == k, "exactly the bytes of the character are consumed: what follows stays in the input");
        }
        Expect::Invalid(k) => {
            assert!(r.is_err(), "an invalid or truncated sequence is an error");
            assert!(consumed <= k, "on an invalid sequence nothing beyond the first offending byte is consumed: what follows stays in the input");
        }
    }
    std::mem::forget(env);
}

#[kani::proof]
#[kani::stub(std::hash::RandomState::new, fixed_random_state)]
#[kani::unwind(6)]
fn c18q_read_char_len0_len1() {
    run(0);
    run(1);
}
#[kani::proof]
#[kani::stub(std::hash::RandomState::new, fixed_random_state)]
#[kani::unwind(6)]
fn c18q_read_char_len2() {
    run(2);
}
#[kani::proof]
#[kani::stub(std::hash::RandomState::new, fixed_random_state)]
#[kani::unwind(6)]
fn c18q_read_char_len3() {
    run(3);
}
#[kani::proof]
#[kani::stub(std::hash::RandomState::new, fixed_random_state)]
#[kani::unwind(6)]
fn c18q_read_char_len4() {
    run(4);
}
/// negative control: must be refuted (a two-byte character is not consumed byte-wise as two characters)
#[kani::proof]
#[kani::stub(std::hash::RandomState::new, fixed_random_state)]
#[kani::unwind(6)]
fn c18x_control_one_byte_per_character() {
    let system = Scripted { data: [0xC3, 0xA9, 0, 0], len: 2, pos: Cell::new(0) };
    let mut env = Env::with_system(system);
    let r = {
        let fut = pin!(read_char(&mut env));
        let mut cx = Context::from_waker(Waker::noop());
        match fut.poll(&mut cx) {
            Poll::Ready(r) => r,
            Poll::Pending => panic!(),
        }
    };
    assert!(env.system.pos.get() == 1, "control: one byte is consumed for a two-byte character (false)");
    let _ = r;
    std::mem::forget(env);
}


// native replay of a Kani counterexample (bin/vcheck replay): the generated test is included here
#[cfg(verif_playback)]
include!("/verif/work/k/playback/readchar_harness.rs");
