# Unit jobstatus: job.rs handle_job_status (kernel shared by C13 and C12).
JOB = 'yash-env/src/job.rs'
SEM = 'yash-env/src/semantics.rs'
MOD_HEAD = '''    use vstd::prelude::*;
    use std::ops::ControlFlow::{self, Break, Continue};
    use std::ffi::c_int;
'''
J0 = 'old(env).jobs.inserted@'
J1 = 'final(env).jobs.inserted@'
ST = 'exit_status_of(result)'
INT = '(result matches ProcessResult::Signaled { signal, core_dump } && signal == S::SIGINT)'
UNIT = {
    'name': 'jobstatus',
    'property': 'C13',
    'rlimit': 60,
    'controls': 'auto',
    'verus_args': ['--edition=2024'],
    'vacuity_floor': 2,
    'items': [
        ('@raw', 'pub mod semantics { pub type Result<T = ()> = std::ops::ControlFlow<crate::js::Divert, T>; }\n'),
        ('@raw', 'pub mod js {\n' + MOD_HEAD),
        (SEM, ['struct ExitStatus']),
        (SEM, ['enum Divert']),
        (JOB, ['enum ProcessResult'], {}),
        (JOB, ['impl ProcessResult', 'fn is_stopped'], {'ret': 'r', 'ensures': ['r == (*self is Stopped)']}),
        (JOB, ['enum ProcessState'], {}),
        (JOB, ['struct Job']),
        (JOB, ['impl Job', 'fn new'], {'ret': 'j', 'ensures': ['j.pid == pid', '!j.job_controlled', 'j.state is Running', 'j.state_changed', 'j.is_owned']}),
        ('@file', 'prelude.rs'),
        (JOB, ['impl From<ProcessResult> for ExitStatus', 'fn from'], {'ret': 'e', 'ensures': ['e == exit_status_of(result)']}),
        (JOB, ['impl From<ProcessResult> for ProcessState', 'fn from'], {'ret': 'e', 'ensures': ['e == ProcessState::Halted(result)']}),
        (JOB, ['fn handle_job_status'], {'ret': 'r', 'rewrites': ['let-chain-nest'],
            'token_rewrites': [('crate :: semantics :: Result < ExitStatus >', 'crate::semantics::Result<ExitStatus>', '*')],
            'requires': ['job_name.requires(())'],
            'ensures': [
                # C13: the status handed on is the one the result stands for
                'r matches ControlFlow::Continue(st) ==> st == ' + ST,
                'r matches ControlFlow::Break(d) ==> d == Divert::Interrupt(Some(' + ST + '))',
                # C12: a stopped child - and no other - becomes a job: job-controlled, with its process ID and its halted state
                'result is Stopped ==> ' + J1 + '.len() == ' + J0 + '.len() + 1 && ' + J1 + '.subrange(0, ' + J0 + '.len() as int) =~= ' + J0
                + ' && ' + J1 + '.last().pid == pid && ' + J1 + '.last().job_controlled && ' + J1 + '.last().state == ProcessState::Halted(result) && ' + J1 + '.last().is_owned',
                '!(result is Stopped) ==> ' + J1 + ' == ' + J0,
                # the shell is interrupted exactly when it is interactive and the child was stopped, or was killed by SIGINT while
                # SIGINT has its default action
                'r is Break <==> old(env).verif_interactive && (result is Stopped || (' + INT + ' && old(env).verif_sigint_default))',
            ]}),
        ('@raw', '}\n'),
    ],
}
