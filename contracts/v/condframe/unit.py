# Unit condframe: where Frame::Condition is pushed (C10) and the and-or short-circuit step (C02).
CC = 'yash-semantics/src/command/compound_command.rs'
PL = 'yash-semantics/src/command/pipeline.rs'
AO = 'yash-semantics/src/command/and_or.rs'
STACK = 'yash-env/src/stack.rs'
SEM = 'yash-env/src/semantics.rs'
OPT = 'yash-env/src/option.rs'
SY = 'yash-syntax/src/syntax.rs'
MOD_HEAD = '''    use vstd::prelude::*;
    use std::ops::ControlFlow::{self, Break, Continue};
    use std::ops::{Deref, DerefMut};
    use std::rc::Rc;
    use std::ffi::c_int;
'''
ASYNC = {'rewrites': ['strip-async']}
UNIT = {
    'name': 'condframe',
    'property': 'C10',
    'rlimit': 60,
    'verus_args': ['--edition=2024'],
    'controls': 'auto',
    'vacuity_floor': 3,
    'rename_idents': {'r#else': 'verif_else'},
    'items': [
        ('@raw', 'pub mod trap { #[derive(Clone, Debug, Eq, PartialEq)] pub struct Condition { pub verif_opaque: u8 } }\npub mod semantics { pub type Result<T = ()> = std::ops::ControlFlow<crate::cf::Divert, T>; }\n'),
        ('@raw', 'pub mod cf {\n' + MOD_HEAD + '    pub use crate::semantics::Result;\n'),
        (OPT, ['enum State']),
        ('@raw', 'pub use State::*;\n'),
        (SEM, ['struct ExitStatus']),
        (SEM, ['impl ExitStatus#1', 'fn is_successful'], {'ret': 'r', 'ensures': ['r == (self.0 == 0)']}),
        (SEM, ['enum Divert']),
        (STACK, ['struct Builtin']),
        (STACK, ['enum Frame']),
        (STACK, ['struct Stack'], {'pub_fields': True}),
        (SY, ['enum AndOr'], {}),
        ('@raw', 'pub use AndOr::{AndThen, OrElse};\n'),
        ('@file', 'prelude.rs'),
        (STACK, ['struct EnvFrameGuard'], {'pub_fields': True, 'drop_derives': 'all'}),
        # RAII, ASSUMED as a whole (Verus does not model destructors): while the guard lives the frame is on top of the stack;
        # when the guard goes away - at the end of its scope, at an early return, or through std::mem::drop - its Drop impl
        # (checked below: it pops one frame) has run, and everything else is as the guard left it.  The body is the real
        # text of the function but is not verified against this contract; the same two-line body is verified for
        # Stack::push below against the plain contract.
        (STACK, ['impl<S> Env<S>', 'fn push_frame'], {'ret': 'g', 'attrs': ['#[verifier::external_body]'],
            'ensures': ['g.env.stack.inner@ == old(self).stack.inner@.push(frame)', 'g.env.exit_status == old(self).exit_status', 'g.env.options == old(self).options', 'g.env.verif_log@ == old(self).verif_log@',
                        'popped(final(self).stack.inner@, final(g.env).stack.inner@)', 'final(self).exit_status == final(g.env).exit_status', 'final(self).options == final(g.env).options', 'final(self).verif_log@ == final(g.env).verif_log@']}),
        (STACK, ['struct StackFrameGuard'], {'pub_fields': True, 'drop_derives': 'all'}),
        (STACK, ['impl Stack', 'fn push'], {'ret': 'g',
            'ensures': ['g.stack.inner@ == old(self).inner@.push(frame)', '*final(g.stack) == *final(self)']}),
        (STACK, ["impl Drop for StackFrameGuard<'_>", 'fn drop'], {'wrapper': "impl<'a> StackFrameGuard<'a>",
            'requires': ['old(self).stack.inner@.len() > 0'],
            'ensures': ['final(self).stack.inner@ == old(self).stack.inner@.drop_last()']}),
        # RAII: what dropping the guard does (checked as an inherent method; Verus does not call Drop itself)
        (STACK, ["impl<S> Drop for EnvFrameGuard<'_, S>", 'fn drop'], {'wrapper': "impl<'a, S> EnvFrameGuard<'a, S>",
            'requires': ['old(self).env.stack.inner@.len() > 0'],
            'ensures': ['final(self).env.stack.inner@ == old(self).env.stack.inner@.drop_last()']}),
        # the condition of if / while / until
        (CC, ['fn evaluate_condition'], dict(ASYNC, ret='r',
            token_rewrites=[('condition . execute ( & mut env )', 'condition.execute(env.env)'), ('env . exit_status . is_successful ( )', 'env.env.exit_status.is_successful()')],
            ensures=[
                # C10: the commands of a condition run with a Condition frame on top of everything the caller had
                'final(env).verif_log@ == old(env).verif_log@.push(final(env).verif_log@.last())',
                'final(env).verif_log@.last().what == condition.verif_id',
                'final(env).verif_log@.last().stack == old(env).stack.inner@.push(Frame::Condition)',
                # C02: the condition holds iff its last command succeeded; a divert passes through
                'r matches ControlFlow::Continue(b) ==> b == (final(env).exit_status.0 == 0) && final(env).verif_log@.last().result is Continue',
                'r matches ControlFlow::Break(d) ==> final(env).verif_log@.last().result == ControlFlow::<Divert, ()>::Break(d)',
                'final(env).stack.inner@ =~= old(env).stack.inner@', 'final(env).options == old(env).options',
                'final(env).exit_status == final(env).verif_log@.last().status_after',
            ])),
        # `!` pipeline
        (PL, ["impl<S: Runtime + 'static> Command<S> for syntax::Pipeline", 'fn execute'], dict(ASYNC, ret='r',
            token_rewrites=[('execute_commands_in_pipeline ( & mut env , & self . commands )', 'execute_commands_in_pipeline(env.env, &self.commands)'),
                            ('env . exit_status = if env . exit_status . is_successful ( )', 'env.env.exit_status = if env.env.exit_status.is_successful()')],
            ensures=[
                'old(env).options.noexec() ==> r is Continue && final(env).verif_log@ == old(env).verif_log@ && final(env).exit_status == old(env).exit_status',
                '!old(env).options.noexec() ==> final(env).verif_log@ == old(env).verif_log@.push(final(env).verif_log@.last()) && final(env).verif_log@.last().what == commands_id_u(self.commands@)',
                # C10: a negated pipeline is an exempt context; a plain one runs with the caller\'s stack
                '!old(env).options.noexec() ==> final(env).verif_log@.last().stack == (if self.negation { old(env).stack.inner@.push(Frame::Condition) } else { old(env).stack.inner@ })',
                # C02: `!` inverts only the status, and only when the commands ended normally
                '!old(env).options.noexec() && self.negation ==> (match final(env).verif_log@.last().result { ControlFlow::Continue(_) => r is Continue && final(env).exit_status == (if final(env).verif_log@.last().status_after.0 == 0 { ExitStatus(1) } else { ExitStatus(0) }), ControlFlow::Break(d) => r == ControlFlow::<Divert, ()>::Break(d) })',
                '!old(env).options.noexec() && !self.negation ==> r == final(env).verif_log@.last().result && final(env).exit_status == final(env).verif_log@.last().status_after',
                # the stack is as it was afterwards (the guard of the Condition frame is gone) and the options are untouched
                'final(env).stack.inner@ =~= old(env).stack.inner@', 'final(env).options == old(env).options',
            ])),
        # if / elif / else
        ('@raw', 'pub mod if_cmd {\n    use super::*;\n'),
        ('yash-semantics/src/command/compound_command/if.rs', ['fn execute'], dict(ASYNC, ret='r',
            attrs=['#[verifier::loop_isolation(false)]'],
            token_rewrites=[
                # `for ElifThen { condition, body } in elifs` = the clauses in order
                ('for ElifThen { condition , body } in elifs {',
                 'let mut verif_k: usize = 0;\n'
                 '    while verif_k < elifs.len()\n'
                 '        invariant verif_k <= elifs@.len(), env.stack.inner@ =~= old(env).stack.inner@, env.options == old(env).options,\n'
                 '            extends_runs(env.verif_log@, old(env).verif_log@), env.verif_log@.len() > old(env).verif_log@.len(),\n'
                 '            forall|j: int| old(env).verif_log@.len() <= j < env.verif_log@.len() ==> failed_condition(#[trigger] env.verif_log@[j], old(env).stack.inner@),\n'
                 '        decreases elifs@.len() - verif_k,\n'
                 '    {\n'
                 '        let ElifThen { condition, body } = &elifs[verif_k]; verif_k += 1;'),
            ],
            ensures=[
                'extends_runs(final(env).verif_log@, old(env).verif_log@)', 'final(env).verif_log@.len() > old(env).verif_log@.len()',
                # C10: every condition (if and elif alike) runs in an exempt context; C02: the conditions are tried in order until
                # one holds, and everything that ran before the last run was a condition that did not hold
                'forall|j: int| old(env).verif_log@.len() <= j < final(env).verif_log@.len() - 1 ==> exempt_run(#[trigger] final(env).verif_log@[j], old(env).stack.inner@)',
                '({ let n = final(env).verif_log@.len(); let last = final(env).verif_log@[n - 1]; '
                # the last run is a condition that was interrupted or that did not hold (then nothing else runs: status 0) ...
                '(exempt_run(last, old(env).stack.inner@) && (last.result is Break ==> r == last.result) && (last.result is Continue ==> r is Continue && final(env).exit_status == ExitStatus(0))) '
                # ... or the branch chosen by the condition just before it (or the else branch), run with the caller\'s own stack, whose result is the result
                '|| (last.stack == old(env).stack.inner@ && r == last.result && final(env).exit_status == last.status_after && n >= old(env).verif_log@.len() + 2 '
                # ... a `then` branch only right after ITS condition held, the else branch only after every condition failed
                '&& exempt_run(final(env).verif_log@[n - 2], old(env).stack.inner@) && final(env).verif_log@[n - 2].result is Continue '
                '&& (final(env).verif_log@[n - 2].status_after.0 == 0 || (verif_else matches Some(e) && last.what == e.verif_id)) '
                '&& (final(env).verif_log@[n - 2].status_after.0 == 0 ==> (final(env).verif_log@[n - 2].what == condition.verif_id && last.what == body.verif_id) || exists|i: int| 0 <= i < elifs@.len() && final(env).verif_log@[n - 2].what == (#[trigger] elifs@[i]).condition.verif_id && last.what == elifs@[i].body.verif_id)) })',
            ])),
        ('@raw', '}\n'),
        # one element of an and-or list after the first
        (AO, ['fn execute_conditional_pipeline'], dict(ASYNC, ret='r',
            ensures=[
                # C02: `&&` runs its pipeline iff the status so far is zero, `||` iff it is not; otherwise nothing runs and
                # the status stays; when it runs, it is that pipeline, with the caller's stack (plus Condition for `!`)
                '({ let run = (verif_p1.0 is AndThen) == (old(env).exit_status.0 == 0); '
                '(!run || old(env).options.noexec() ==> r is Continue && final(env).verif_log@ == old(env).verif_log@ && final(env).exit_status == old(env).exit_status) '
                '&& (run && !old(env).options.noexec() ==> final(env).verif_log@ == old(env).verif_log@.push(final(env).verif_log@.last()) && final(env).verif_log@.last().what == commands_id_u(verif_p1.1.commands@) '
                '&& final(env).verif_log@.last().stack == (if verif_p1.1.negation { old(env).stack.inner@.push(Frame::Condition) } else { old(env).stack.inner@ })) })',
                'final(env).stack.inner@ =~= old(env).stack.inner@', 'final(env).options == old(env).options',
                'r matches ControlFlow::Break(d) ==> final(env).verif_log@.len() > old(env).verif_log@.len()',
            ])),
        (AO, ["impl<S: Runtime + 'static> Command<S> for AndOrList", 'fn execute'], dict(ASYNC, ret='r',
            attrs=['#[verifier::exec_allows_no_decreases_clause]', '#[verifier::loop_isolation(false)]', '#[verifier::allow_complex_invariants]'],
            ghost_before=[('execute_conditional_pipeline ( env ,', 'proof { assert(env.stack.inner@ =~= old(env).stack.inner@); }')],
            token_rewrites=[
                # `&mut guard` where `&mut Env` is expected (DerefMut of the guard) = the reference the guard holds
                ('& mut env2', 'env2.env', '*'),
                ('self . rest . iter ( ) . peekable ( )', 'VerifPeek::new(&self.rest)'),
                # the explicit drop marks the end of the guard's life; in the extracted text the guard has no destructor (its
                # effect is part of the contract of push_frame), so its life ends with its last use
                ('drop ( env2 ) ;', '/* drop(env2): end of the life of the guard */'),
            ],
            ensures=[
                'extends_runs(final(env).verif_log@, old(env).verif_log@)',
                # C10: "every pipeline of an and-or list but the last" is an exempt context - every run this list causes
                # happens with a Condition frame directly above the caller\'s stack, except the run of the LAST pipeline,
                # which happens with the caller\'s own stack (plus its own Condition if it is negated)
                'forall|j: int| old(env).verif_log@.len() <= j < final(env).verif_log@.len() ==> exempt_run(#[trigger] final(env).verif_log@[j], old(env).stack.inner@) '
                '|| (j == final(env).verif_log@.len() - 1 && ({ let last = if self.rest@.len() == 0 { self.first } else { self.rest@.last().1 }; '
                'final(env).verif_log@[j].what == commands_id_u(last.commands@) && plain_or_negated(final(env).verif_log@[j], old(env).stack.inner@, last.negation) }))',
                # a single pipeline is just that pipeline
                'self.rest@.len() == 0 && !old(env).options.noexec() ==> final(env).verif_log@.len() == old(env).verif_log@.len() + 1 && (r is Break ==> r == final(env).verif_log@.last().result)',
            ],
            loops={0: {'invariant_except_break': ['i.k < self.rest@.len()'], 'invariant': [
                'i.s == &self.rest', 'i.k <= self.rest@.len()', 'self.rest@.len() > 0',
                'env2.env.stack.inner@ == old(env).stack.inner@.push(Frame::Condition)',
                'env2.env.options == old(env).options',
                'extends_runs(env2.env.verif_log@, old(env).verif_log@)',
                'forall|j: int| old(env).verif_log@.len() <= j < env2.env.verif_log@.len() ==> exempt_run(#[trigger] env2.env.verif_log@[j], old(env).stack.inner@)',
            ], 'ensures': [
                'pipeline == &self.rest@.last()',
                'env2.env.stack.inner@ == old(env).stack.inner@.push(Frame::Condition)',
                'env2.env.options == old(env).options',
                'extends_runs(env2.env.verif_log@, old(env).verif_log@)',
                'forall|j: int| old(env).verif_log@.len() <= j < env2.env.verif_log@.len() ==> exempt_run(#[trigger] env2.env.verif_log@[j], old(env).stack.inner@)',
            ]}})),
        ('@raw', '}\n'),
    ],
}
