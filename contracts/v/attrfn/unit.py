# Unit attrfn: backslash escapes in expansion results become quoting before a pattern is built (property C04).
AF = 'yash-semantics/src/expansion/attr_fnmatch.rs'
ATTR = 'yash-env/src/semantics/expansion/attr.rs'
MOD_HEAD = '''    use vstd::prelude::*;
'''
UNIT = {
    'name': 'attrfn',
    'property': 'C04',
    'rlimit': 60,
    'verus_args': ['--edition=2024'],
    'items': [
        ('@raw', 'pub mod af {\n' + MOD_HEAD),
        (ATTR, ['enum Origin']),
        (ATTR, ['struct AttrChar']),
        ('@file', 'prelude.rs'),
        (AF, ['fn apply_escapes'], {
            'ensures': ['final(chars)@ =~= esc_upto(old(chars)@, old(chars)@.len() - 1)'],
            # the ghost iterator of the `for` is named so that the invariant can count the iterations done (the loop variable
            # itself is unconstrained when the range is empty)
            'token_rewrites': [('for j in 1..chars.len()', 'for j in verif_it: 1..chars.len()')],
            'loops': {0: {'invariant': [
                'chars@.len() == old(chars)@.len()',
                'chars@ =~= esc_upto(old(chars)@, verif_it.index() as int)',
            ]}},
        }),
        ('@raw', '}\n'),
    ],
}
