# Unit fgresume: what `fg` does with a job (kernel of C12 / C13).
FG = 'yash-builtin/src/fg.rs'
JOB = 'yash-env/src/job.rs'
MOD_HEAD = '''    use vstd::prelude::*;
'''
L0 = 'old(env).system.log@'
L1 = 'final(env).system.log@'
J = 'old(env).jobs.jobs@[index]'
UNIT = {
    'name': 'fgresume',
    'property': 'C13',
    'rlimit': 80,
    'verus_args': ['--edition=2024'],
    'vacuity_floor': 2,
    'controls': 'auto',
    'items': [
        ('@raw', 'pub mod fg {\n' + MOD_HEAD),
        (JOB, ['enum ProcessResult'], {}),
        (JOB, ['impl ProcessResult', 'fn is_stopped'], {'ret': 'r', 'ensures': ['r == (*self is Stopped)']}),
        (JOB, ['enum ProcessState'], {}),
        (JOB, ['struct Job'], {'drop_derives': 'all'}),
        ('@file', 'prelude.rs'),
        (FG, ['fn resume_job_by_index'], {'ret': 'r', 'rewrites': ['strip-async'],
            'sig_token_rewrites': [('S : Close + Dup + Isatty + Open + RunBlocking + SendSignal + SignalSystem + TcSetPgrp + Wait + WaitForSignals + WriteAll ,', 'S: Sys,')],
            'token_rewrites': [
                ('& env . jobs [ index ]', 'env.jobs.verif_at(index)'),
                ('let line = format ! ( "{}\\n" , job . name ) ; env . system . write_all ( Fd :: STDOUT , line . as_bytes ( ) ) . await ? ; drop ( line ) ;', 'verif_write_name(&mut env.system, &job.name)?;'),
                ('tcsetpgrp_with_block ( & env . system , tty , env . main_pgid )', 'tcsetpgrp_with_block(&mut env.system, tty, env.main_pgid)'),
                ('env . jobs . remove ( index ) ;', 'verif_remove(env, index);', '*'),
            ],
            'requires': ['old(env).jobs.jobs@.contains_key(index)'],
            'ensures': [
                # what happened before is untouched
                L1 + '.len() >= ' + L0 + '.len() && (forall|k: int| 0 <= k < ' + L0 + '.len() ==> #[trigger] ' + L1 + '[k] == ' + L0 + '[k])',
                # not a job of this shell, or not under job control: refused; nothing is written, signalled, awaited or removed
                '(!' + J + '.is_owned || !' + J + '.job_controlled) ==> r is Err && ' + L1 + ' == ' + L0 + ' && final(env).jobs == old(env).jobs',
                'r is Ok ==> ' + J + '.is_owned && ' + J + '.job_controlled',
                # never a signal to anything but the job's process group, and only SIGCONT; never a wait for anything but the job
                'forall|k: int| ' + L0 + '.len() <= k < ' + L1 + '.len() ==> (#[trigger] ' + L1 + '[k] matches Ev::Kill { target, cont, ok } ==> cont && target == neg_pid(' + J + '.pid))',
                'forall|k: int| ' + L0 + '.len() <= k < ' + L1 + '.len() ==> (#[trigger] ' + L1 + '[k] matches Ev::Waited { pid, result } ==> pid == ' + J + '.pid)',
                # a job that has already finished: its result, no signal, no wait; it is removed
                '(r is Ok && (' + J + '.state matches ProcessState::Halted(res) && !(res is Stopped))) ==> r == Ok::<ProcessResult, ResumeError>(' + J + '.state->Halted_0) && ' + L1 + '.len() == ' + L0 + '.len() + 2 && ' + L1 + '[' + L0 + '.len() as int] is Wrote && ' + L1 + '.last() == (Ev::Removed { index })',
                # a live job: (the terminal first, if there is one,) then SIGCONT, then ONE wait whose answer is the answer, (then the
                # terminal back,) and the job leaves the table exactly when it has finished
                '(r is Ok && !(' + J + '.state matches ProcessState::Halted(h) && !(h is Stopped))) ==> resumed(' + L1 + ', ' + L0 + '.len() as int, old(env).verif_tty is Some, ' + J + '.pid, old(env).main_pgid, index, r->Ok_0)',
                # the table: the job is gone iff a removal is recorded; nothing else changes
                '(' + L1 + '.len() > ' + L0 + '.len() && ' + L1 + '.last() is Removed) ==> final(env).jobs.jobs@.dom() == old(env).jobs.jobs@.dom().remove(index)',
                '!(' + L1 + '.len() > ' + L0 + '.len() && ' + L1 + '.last() is Removed) ==> final(env).jobs.jobs@.dom() == old(env).jobs.jobs@.dom()',
                'r matches Ok(res) ==> (' + L1 + '.last() is Removed <==> !(res is Stopped))',
            ]}),
        (FG, ['fn should_interrupt'], {'ret': 'r', 'rewrites': ['let-chain-nest'],
            'sig_token_rewrites': [('S : Signals', 'S: Sys + SigInt')],
            'ensures': ['r == (env.verif_interactive && (*result is Stopped || ((*result matches ProcessResult::Signaled { signal, core_dump } && signal == S::SIGINT) && env.verif_sigint_default)))']}),
        ('@raw', '}\n'),
    ],
}
