//! Kani contracts for the quoting decision (property C07), injected as a child module of
//! yash-quote/src/lib.rs.
//!
//! Reference: XCU 2.2 -- the characters that must be quoted to represent themselves are the operator
//! characters `| & ; < > ( )`, `$`, `` ` ``, `\`, `"`, `'`, <space>, <tab>, <newline>; and, depending on
//! position, `* ? [ # ~ = %`.  yash additionally treats every Unicode white space as a blank
//! (yash-syntax `is_blank`), so every white-space character must be quoted as well.
#![allow(dead_code, unused_imports)]
use super::*;

/// characters the shell's lexer treats specially wherever they occur (written from XCU 2.2 / 2.10)
pub(super) fn lexer_special_ascii(c: u8) -> bool {
    matches!(c, b'|' | b'&' | b';' | b'<' | b'>' | b'(' | b')' | b'$' | b'`' | b'\\' | b'"' | b'\'' | b' ' | b'\t' | b'\n')
}

/// the quoting function's documented always-quote set = the above plus `= * ?` and all white space
fn must_quote_ascii(c: u8) -> bool {
    lexer_special_ascii(c) || matches!(c, b'=' | b'*' | b'?') || (c as char).is_whitespace()
}

/// Every ASCII character (concrete loop).
#[kani::proof]
#[kani::unwind(130)]
fn c07q_char_needs_quoting_ascii() {
    let mut c = 0u8;
    while c < 128 {
        assert!(char_needs_quoting(c as char) == must_quote_ascii(c), "char_needs_quoting on ASCII = the documented set");
        assert!(!lexer_special_ascii(c) || char_needs_quoting(c as char), "every character special to the lexer needs quoting");
        c += 1;
    }
}

/// Every `char`: beyond ASCII exactly the white-space characters need quoting (they are blanks for the lexer).
#[kani::proof]
fn c07q_char_needs_quoting_all() {
    let c: char = kani::any();
    let r = char_needs_quoting(c);
    if (c as u32) < 128 {
        assert!(r == must_quote_ascii(c as u8), "ASCII: the documented set");
    } else {
        assert!(r == c.is_whitespace(), "non-ASCII: exactly the white-space characters");
    }
}

/// Must FAIL.
#[kani::proof]
fn c07x_control_space_unquoted() {
    assert!(!char_needs_quoting(' '), "CONTROL (expected to fail): a space needs no quoting");
}

// ---------------------------------------------------------------- positional rules (bounded)
fn reference_needs_quoting(s: &[u8]) -> bool {
    if s.is_empty() {
        return true;
    }
    if s[0] == b'#' || s[0] == b'~' {
        return true;
    }
    let mut i = 0;
    while i < s.len() {
        if must_quote_ascii(s[i]) {
            return true;
        }
        i += 1;
    }
    // `:~` (tilde expansion in assignments), `{` before `}` (brace expansion), `[` before `]` (pattern bracket)
    let mut i = 0;
    while i + 1 < s.len() {
        if s[i] == b':' && s[i + 1] == b'~' {
            return true;
        }
        i += 1;
    }
    let mut seen_brace = false;
    let mut seen_bracket = false;
    let mut i = 0;
    while i < s.len() {
        if s[i] == b'}' && seen_brace {
            return true;
        }
        if s[i] == b']' && seen_bracket {
            return true;
        }
        if s[i] == b'{' {
            seen_brace = true;
        }
        if s[i] == b'[' {
            seen_bracket = true;
        }
        i += 1;
    }
    false
}

/// Symbolic characters made CBMC time out (1200 s) on the string searches of `str_needs_quoting`
/// (`contains(":~")`, `find('{')`); the texts are therefore enumerated by concrete loops.
const ALPHABET: [u8; 9] = *b"#~:{}[]a ";

fn check_text(buf: &[u8]) {
    let s = std::str::from_utf8(buf).unwrap();
    assert!(str_needs_quoting(s) == reference_needs_quoting(buf), "str_needs_quoting = the documented decision rule");
}

#[kani::proof]
#[kani::unwind(12)]
fn c07q_str_needs_quoting_len0_1() {
    check_text(&[]);
    let mut a = 0;
    while a < 9 {
        check_text(&[ALPHABET[a]]);
        a += 1;
    }
}

// NOTE: texts of two and three characters (where `:~`, `{..}` and `[..]` can occur) were enumerated the
// same way and had to be withdrawn: 45 two-character texts did not finish in 1200 s, because
// `str::contains(&str)` runs std's two-way string searcher, which CBMC cannot execute in reasonable time
// even on concrete input.  The positional rules of `str_needs_quoting` are therefore NOT checked.

// ---------------------------------------------------------------- the quoted form
struct OutBuf { bytes: [u8; 16], len: usize }
impl std::fmt::Write for OutBuf {
    fn write_str(&mut self, s: &str) -> std::fmt::Result {
        let b = s.as_bytes();
        let mut i = 0;
        while i < b.len() {
            if self.len >= 16 { return Err(std::fmt::Error); }
            self.bytes[self.len] = b[i];
            self.len += 1;
            i += 1;
        }
        Ok(())
    }
}

fn check_form(raw: &str, expected: &[u8]) {
    use std::fmt::Write as _;
    let mut out = OutBuf { bytes: [0; 16], len: 0 };
    let r = write!(out, "{}", quoted(raw));
    assert!(r.is_ok());
    assert!(out.len == expected.len(), "length of the quoted form");
    let mut i = 0;
    while i < expected.len() {
        assert!(out.bytes[i] == expected[i], "the quoted form, byte by byte");
        i += 1;
    }
}

/// XCU 2.2.3: inside double quotes the backslash escapes exactly $ ` " \ ; a text with a single quote must
/// be double-quoted and each of those four characters escaped.
#[kani::proof]
#[kani::unwind(18)]
fn c07q_double_quoted_form_escapes() {
    check_form("'$", b"\"'\\$\"");
    check_form("'`", b"\"'\\`\"");
    check_form("'\"", b"\"'\\\"\"");
    check_form("'\\", b"\"'\\\\\"");
    check_form("'a", b"\"'a\"");
}

#[kani::proof]
#[kani::unwind(18)]
fn c07q_single_quoted_and_bare_forms() {
    check_form("a b", b"'a b'");
    check_form("$x", b"'$x'");
    check_form("", b"''");
    check_form("ab", b"ab");
}

// native replay of a Kani counterexample (bin/vcheck replay): the generated test is included here
#[cfg(verif_playback)]
include!("/verif/work/k/playback/quote_quote_harness.rs");
