# Unit trap: per-signal trap state machine of yash-env (properties C11 and C08's trap clause).
STATE = 'yash-env/src/trap/state.rs'
TRAP = 'yash-env/src/trap.rs'
ASYNC = {'rewrites': ['strip-async'], 'mut_params': ['system']}

MOD_HEAD = '''    use vstd::prelude::*;
    use std::collections::hash_map::{Entry, VacantEntry};
    use std::collections::HashMap as BTreeMap;
    use std::rc::Rc;
    use std::num::NonZero;
    use std::ffi::c_int;
    use vstd::std_specs::hash::{EntrySpecFns, OccupiedEntrySpecFns, VacantEntrySpecFns};
'''

UNIT = {
    'name': 'trap',
    'property': 'C11',
    'rlimit': 60,
    'verus_args': ['--edition=2024'],
    'crate_attrs': ['#![feature(allocator_api)]', '#![feature(sized_hierarchy)]'],
    # vacuity twin: every contracted fn with a precondition gets `ensures false` appended and must fail
    'controls': 'auto',
    'items': [
        # signal numbers, conditions and the assumed std contracts over them live in a module of their own (Verus
        # rejects a module-level `broadcast use` of an axiom that sits beside the types it mentions)
        ('@raw', 'pub mod sg {\n' + MOD_HEAD),
        ('@raw', 'pub mod signal {\n    use vstd::prelude::*;\n    use std::num::NonZero;\n    use std::ffi::c_int;\n'),
        ('yash-env/src/signal.rs', ['type RawNumber']),
        ('yash-env/src/signal.rs', ['struct Number']),
        ('@raw', '}\n'),
        ('yash-env/src/trap/cond.rs', ['enum Condition']),
        ('@file', 'prelude_set.rs'),
        ('@raw', '}\n'),
        ('@raw', 'pub mod tr {\n' + MOD_HEAD + '    use super::sg::*;\n'),
        ('@broadcast', ['super::sg::axiom_condition_key_model', 'super::sg::axiom_key_borrows_same']),
        ('yash-env/src/system/errno.rs', ['type RawErrno']),
        ('yash-env/src/system/errno.rs', ['struct Errno']),
        ('yash-env/src/system/signal.rs', ['enum Disposition']),
        ('@file', 'prelude.rs'),
        (STATE, ['enum Action']),
        (STATE, ['impl From<&Action> for Disposition']),
        (STATE, ['enum SetActionError']),
        (STATE, ['enum Origin']),
        (STATE, ['struct TrapState']),
        (STATE, ['impl TrapState', 'fn from_initial_disposition'], {'ret': 'r', 'ensures': ['r == initial_state(disposition)']}),
        (STATE, ['enum EnterSubshellOption']),
        (STATE, ['struct GrandState']),
        (STATE, ['impl GrandState', 'fn insert_from_system_if_vacant'], {'ret': 'r', 'ensures': [
            'e_pre(entry) is Some ==> e_post(entry) == e_pre(entry) && r is Ok',
            'r is Ok && e_pre(entry) is None ==> e_post(entry) is Some && e_post(entry)->0.parent() is None && e_post(entry)->0.internal() == Disposition::Default',
            'r is Ok && e_pre(entry) is None && e_key(entry) is Signal ==> e_post(entry)->0.cur() == initial_state(system.installed(e_key(entry)->Signal_0))',
            'r is Ok && e_pre(entry) is None && e_key(entry) is Exit ==> e_post(entry)->0.cur() == initial_state(Disposition::Default)',
        ]}),
        (STATE, ['impl GrandState', 'fn set_action'], dict(ASYNC, ret='r',
            requires=['e_key(entry) is Signal ==> inv(e_pre(entry), old(system).installed(e_key(entry)->Signal_0))'],
            ensures=[
                # the invariant is re-established whatever the outcome
                'e_key(entry) is Signal ==> inv(e_post(entry), final(system).installed(e_key(entry)->Signal_0))',
                'e_key(entry) is Signal ==> others_unchanged(*old(system), *final(system), e_key(entry)->Signal_0)',
                'e_key(entry) is Exit ==> all_unchanged(*old(system), *final(system))',
                # success: the new action is recorded with origin User, pending cleared, the rest of the record kept
                'r is Ok ==> e_post(entry) is Some && e_post(entry)->0.cur() == (TrapState { action: action, origin: Origin::User(origin), pending: false })',
                'r is Ok && e_pre(entry) is Some ==> e_post(entry)->0.internal() == e_pre(entry)->0.internal() && e_post(entry)->0.parent() == e_pre(entry)->0.parent()',
                'r is Ok && e_pre(entry) is None ==> e_post(entry)->0.internal() == Disposition::Default && e_post(entry)->0.parent() is None',
                # a signal ignored on entry can be neither trapped nor reset (non-interactive: !override_ignore)
                '!override_ignore && e_pre(entry) is Some && e_pre(entry)->0.cur().action == Action::Ignore && e_pre(entry)->0.cur().origin == Origin::Inherited ==> r == Err::<(), SetActionError>(SetActionError::InitiallyIgnored) && e_post(entry) == e_pre(entry) && all_unchanged(*old(system), *final(system))',
                # ... also when there is no record yet: the trap is refused and the signal stays ignored.  (The error
                # value produced by `?` from a failing system call is not tracked by Verus, so the two outcomes are
                # told apart by their effect: system call failed / refused.)
                '!override_ignore && e_pre(entry) is None && e_key(entry) is Signal && old(system).installed(e_key(entry)->Signal_0) == Disposition::Ignore ==> r is Err && ((e_post(entry) is None && all_unchanged(*old(system), *final(system))) || (e_post(entry) is Some && e_post(entry)->0.cur() == initial_state(Disposition::Ignore) && final(system).installed(e_key(entry)->Signal_0) == Disposition::Ignore))',
                # ... and nothing else is refused: with a record, the call succeeds unless the system refuses
                'e_pre(entry) is Some && (override_ignore || !(e_pre(entry)->0.cur().action == Action::Ignore && e_pre(entry)->0.cur().origin == Origin::Inherited)) && (e_key(entry) is Signal ==> forall|d: Disposition| !old(system).refuses(e_key(entry)->Signal_0, d)) ==> r is Ok',
                'e_pre(entry) is None && (override_ignore || e_key(entry) is Exit || old(system).installed(e_key(entry)->Signal_0) != Disposition::Ignore) && (e_key(entry) is Signal ==> forall|d: Disposition| !old(system).refuses(e_key(entry)->Signal_0, d)) ==> r is Ok',
                # a record created by this call starts without parent state and without internal disposition
                'e_pre(entry) is None && e_post(entry) is Some ==> e_post(entry)->0.parent() is None && e_post(entry)->0.internal() == Disposition::Default',
                # an occupied record is never changed by a failing call
                'r is Err && e_pre(entry) is Some ==> e_post(entry) == e_pre(entry) && all_unchanged(*old(system), *final(system))',
            ])),
        (STATE, ['impl GrandState', 'fn set_internal_disposition'], dict(ASYNC, ret='r',
            requires=['e_key(entry) is Signal', 'inv(e_pre(entry), old(system).installed(e_key(entry)->Signal_0))'],
            ensures=[
                'r is Ok ==> inv(e_post(entry), final(system).installed(e_key(entry)->Signal_0))',
                'others_unchanged(*old(system), *final(system), e_key(entry)->Signal_0)',
                # the user's action, origin, pending flag and parent state are not touched (frame)
                'r is Ok && e_pre(entry) is Some ==> e_post(entry) is Some && e_post(entry)->0.cur() == e_pre(entry)->0.cur() && e_post(entry)->0.parent() == e_pre(entry)->0.parent() && e_post(entry)->0.internal() == disposition',
                'r is Ok && e_pre(entry) is None && disposition == Disposition::Default ==> e_post(entry) is None && all_unchanged(*old(system), *final(system))',
                'r is Ok && e_pre(entry) is None && disposition != Disposition::Default ==> e_post(entry) is Some && e_post(entry)->0.internal() == disposition && e_post(entry)->0.cur() == initial_state(old(system).installed(e_key(entry)->Signal_0)) && e_post(entry)->0.parent() is None',
                # never dropping a handler still needed / never catching what should be ignored or defaulted
                'r is Ok && e_post(entry) is Some ==> final(system).installed(e_key(entry)->Signal_0) == dmax(disposition, disp_of(e_post(entry)->0.cur().action))',
                'r is Err ==> e_post(entry) == e_pre(entry) && all_unchanged(*old(system), *final(system))',
            ])),
        (STATE, ['impl GrandState', 'fn enter_subshell'], dict(ASYNC, rewrites=['strip-async', 'let-chain-last'], ret='r',
            requires=['cond is Signal ==> inv(Some(*old(self)), old(system).installed(cond->Signal_0))'],
            ensures=[
                # C08: traps with command actions are reset to default, the old state is remembered; ignores stay ignored
                'r is Ok && old(self).cur().action is Command && option != EnterSubshellOption::Ignore ==> final(self).cur() == (TrapState { action: Action::Default, origin: Origin::Subshell, pending: false })',
                'old(self).cur().action is Command ==> final(self).parent() == Some(old(self).cur())',
                '!(old(self).cur().action is Command) ==> final(self).parent() == old(self).parent()',
                'r is Ok && old(self).cur().action == Action::Ignore ==> final(self).cur().action == Action::Ignore',
                'r is Ok && !(old(self).cur().action is Command) && option != EnterSubshellOption::Ignore ==> final(self).cur() == old(self).cur()',
                'r is Ok && option == EnterSubshellOption::Ignore ==> final(self).cur().action == Action::Ignore',
                # ... and only a signal that WAS ignored on entry carries that mark afterwards: a signal the subshell itself
                # starts to ignore (asynchronous list) can still be trapped in it, whatever was known about it before
                'r is Ok && option == EnterSubshellOption::Ignore && final(self).cur().origin == Origin::Inherited ==> old(self).cur().action == Action::Ignore && old(self).cur().origin == Origin::Inherited',
                # "a signal that was ignored on entry can be neither trapped nor reset": the mark of an inherited ignore survives
                'r is Ok && old(self).cur().action == Action::Ignore && old(self).cur().origin == Origin::Inherited ==> final(self).cur().action == Action::Ignore && final(self).cur().origin == Origin::Inherited',
                'r is Ok ==> final(self).internal() == (if option == EnterSubshellOption::KeepInternalDisposition { old(self).internal() } else { Disposition::Default })',
                # C11: the installed disposition follows
                'r is Ok && cond is Signal ==> inv(Some(*final(self)), final(system).installed(cond->Signal_0))',
                'cond is Signal ==> others_unchanged(*old(system), *final(system), cond->Signal_0)',
                'cond is Exit ==> all_unchanged(*old(system), *final(system))',
                # the only way to fail is a refusal by the system; what the system refuses is not changed by the call
                'cond is Exit ==> r is Ok',
                'cond is Signal && (forall|d: Disposition| !old(system).refuses(cond->Signal_0, d)) ==> r is Ok',
                'forall|s: signal::Number, d: Disposition| final(system).refuses(s, d) == old(system).refuses(s, d)',
            ])),
        (STATE, ['impl GrandState', 'fn ignore'], dict(ASYNC, ret='r',
            requires=['vacant.spec_key() is Signal'],
            ensures=[
                'r is Ok ==> final(system).installed(vacant.spec_key()->Signal_0) == Disposition::Ignore',
                'r is Ok ==> vacant.final_value() is Some && inv(vacant.final_value(), final(system).installed(vacant.spec_key()->Signal_0))',
                'r is Ok ==> vacant.final_value()->0.cur().action == Action::Ignore && vacant.final_value()->0.cur().pending == false',
                # a fresh record: no internal disposition, no parent state
                'r is Ok ==> vacant.final_value()->0.internal() == Disposition::Default && vacant.final_value()->0.parent() is None',
                # already ignored on entry => recorded as inherited (cannot be changed later by a non-interactive shell)
                'r is Ok ==> (vacant.final_value()->0.cur().origin == Origin::Inherited <==> old(system).installed(vacant.spec_key()->Signal_0) == Disposition::Ignore)',
                'others_unchanged(*old(system), *final(system), vacant.spec_key()->Signal_0)',
                'r is Err ==> vacant.final_value() is None && all_unchanged(*old(system), *final(system))',
                '(forall|d: Disposition| !old(system).refuses(vacant.spec_key()->Signal_0, d)) ==> r is Ok',
                'forall|s: signal::Number, d: Disposition| final(system).refuses(s, d) == old(system).refuses(s, d)',
            ])),
        (STATE, ['impl GrandState', 'fn mark_as_caught'], {'ensures': [
            'final(self).cur() == (TrapState { action: old(self).cur().action, origin: old(self).cur().origin, pending: true })',
            'final(self).parent() == old(self).parent() && final(self).internal() == old(self).internal()']}),
        (STATE, ['impl GrandState', 'fn handle_if_caught'], {'ret': 'r', 'ensures': [
            # a take returns the state iff pending was set, and clears it: one catch, one run
            'r is Some <==> old(self).cur().pending',
            'final(self).cur() == (TrapState { action: old(self).cur().action, origin: old(self).cur().origin, pending: false })',
            'r is Some ==> *r->0 == final(self).cur()',
            'final(self).parent() == old(self).parent() && final(self).internal() == old(self).internal()']}),
        # ---- the table: TrapSet ------------------------------------------------------------------------
        (TRAP, ['struct TrapSet'], {'drop_derives': True, 'pub_fields': True}),
        ('@file', 'prelude_set2.rs'),
        (STATE, ['impl GrandState', 'fn clear_parent_state'], {'ensures': [
            'final(self).parent() is None && final(self).cur() == old(self).cur() && final(self).internal() == old(self).internal()']}),
        # `for state in self.traps.values_mut()` is checked as a `while let` over the model iterator of prelude_set2.rs
        # (rule tokens-to-helper; the invariant travels with the replacement text)
        (TRAP, ['impl TrapSet', 'fn clear_parent_states'], {
            'attrs': ['#[verifier::loop_isolation(false)]'],
            'token_rewrites': [('for state in self . traps . values_mut ( ) {',
                'let mut verif_it = verif_iter_mut(&mut self.traps); let ghost verif_slots = verif_it.slots();\n'
                '        while let Some((_verif_k, state)) = verif_it.next()\n'
                '            invariant\n'
                '                verif_it.slots() == verif_slots,\n'
                '                verif_it.todo().subset_of(old(self).tab().dom()),\n'
                '                forall|c: Condition| #[trigger] old(self).tab().contains_key(c) && !verif_it.todo().contains(c) ==> (*final(verif_slots[c])).cur() == old(self).tab()[c].cur() && (*final(verif_slots[c])).internal() == old(self).tab()[c].internal() && (*final(verif_slots[c])).parent() is None,\n'
                '            decreases verif_it.todo().len(),\n'
                '        {')],
            'ensures': ['parents_cleared(old(self).tab(), final(self).tab())']}),
        (STATE, ['impl GrandState', 'fn internal_disposition'], {'ret': 'r', 'ensures': ['r == self.internal()']}),
        # C08 (last sentence) and C11 on the table: subshell entry.  The two `for` loops are checked as `while` loops over
        # the model iterator / over the two array elements (rule tokens-to-helper; invariants travel with the replacement).
        (TRAP, ['impl TrapSet', 'fn enter_subshell'], dict(ASYNC,
            attrs=['#[verifier::loop_isolation(false)]'],
            token_rewrites=[
                ('for ( & cond , state ) in & mut self . traps {',
                 'let ghost verif_t1 = self.tab(); let ghost verif_sys1 = *system;\n'
                 '        let mut verif_it = verif_iter_mut(&mut self.traps); let ghost verif_slots = verif_it.slots();\n'
                 '        while let Some((verif_k, state)) = verif_it.next()\n'
                 '            invariant\n'
                 '                verif_it.slots() == verif_slots,\n'
                 '                verif_it.todo().subset_of(verif_t1.dom()),\n'
                 '                loop1_inv::<S>(verif_t1, verif_slots, verif_it.todo(), verif_sys1, *system, ignore_sigint_sigquit, keep_internal_dispositions_for_stoppers),\n'
                 '            decreases verif_it.todo().len(),\n'
                 '        { let cond = *verif_k;'),
                ('for signal in [ S :: SIGINT , S :: SIGQUIT ] {',
                 'let ghost verif_t2 = self.tab(); let ghost verif_sys2 = *system;\n'
                 '            let verif_arr = [S::SIGINT, S::SIGQUIT]; let mut verif_i: usize = 0;\n'
                 '            while verif_i < 2\n'
                 '                invariant\n'
                 '                    verif_i <= 2, verif_arr@.len() == 2, verif_arr@[0] == S::SIGINT, verif_arr@[1] == S::SIGQUIT,\n'
                 '                    loop2_inv::<S>(verif_t2, self.tab(), verif_sys2, *system, verif_i as int),\n'
                 '                decreases 2 - verif_i,\n'
                 '            { let signal = verif_arr[verif_i]; verif_i += 1;'),
            ],
            requires=['tinv(old(self).tab(), *old(system))'],
            ensures=[
                # C11: the table invariant holds again (for a system that carries out what it is asked; errors are ignored by design)
                'norefuse(*old(system)) ==> tinv(final(self).tab(), *final(system))',
                # no record disappears; the only records that may appear are those of SIGINT and SIGQUIT, when they are to be ignored
                'forall|c: Condition| #[trigger] old(self).tab().contains_key(c) ==> final(self).tab().contains_key(c)',
                'forall|c: Condition| #[trigger] final(self).tab().contains_key(c) && !old(self).tab().contains_key(c) ==> ignore_sigint_sigquit && (c == Condition::Signal(S::SIGINT) || c == Condition::Signal(S::SIGQUIT))',
                # C08: "traps with command actions are reset to default while ignored signals stay ignored"; the trap that was
                # reset is remembered as the parent state, and no other parent state survives
                'forall|c: Condition| #[trigger] old(self).tab().contains_key(c) ==> parent_entered(old(self).tab()[c], final(self).tab()[c])',
                'norefuse(*old(system)) && chld_distinct::<S>() ==> forall|c: Condition| #[trigger] old(self).tab().contains_key(c) ==> rec_entered::<S>(c, old(self).tab()[c], final(self).tab()[c], ignore_sigint_sigquit, keep_internal_dispositions_for_stoppers)',
                # an asynchronous list without job control: SIGINT and SIGQUIT are ignored from now on, whatever was known about them
                'norefuse(*old(system)) && chld_distinct::<S>() && ignore_sigint_sigquit ==> final(self).tab().contains_key(Condition::Signal(S::SIGINT)) && final(self).tab()[Condition::Signal(S::SIGINT)].cur().action == Action::Ignore && final(system).installed(S::SIGINT) == Disposition::Ignore',
                'norefuse(*old(system)) && chld_distinct::<S>() && ignore_sigint_sigquit ==> final(self).tab().contains_key(Condition::Signal(S::SIGQUIT)) && final(self).tab()[Condition::Signal(S::SIGQUIT)].cur().action == Action::Ignore && final(system).installed(S::SIGQUIT) == Disposition::Ignore',
                # signals the table knows nothing about keep their disposition unless they are SIGINT / SIGQUIT to be ignored
                'forall|s: signal::Number| !(#[trigger] final(self).tab().contains_key(Condition::Signal(s))) ==> final(system).installed(s) == old(system).installed(s)',
            ])),
        (TRAP, ['impl TrapSet', 'fn set_action_impl'], dict(ASYNC, ret='r',
            requires=['tinv(old(self).tab(), *old(system))'],
            ensures=[
                # "KILL and STOP can never be trapped": refused before anything is touched
                'cond == Condition::Signal(S::SIGKILL) ==> r == Err::<(), SetActionError>(SetActionError::SIGKILL) && final(self).tab() == old(self).tab() && all_unchanged(*old(system), *final(system))',
                'cond == Condition::Signal(S::SIGSTOP) && S::SIGSTOP != S::SIGKILL ==> r == Err::<(), SetActionError>(SetActionError::SIGSTOP) && final(self).tab() == old(self).tab() && all_unchanged(*old(system), *final(system))',
                # the table invariant of C11 holds again, whatever the outcome
                'tinv(final(self).tab(), *final(system))',
                # success records the action for this condition ...
                'r is Ok ==> final(self).tab().contains_key(cond) && final(self).tab()[cond].cur() == (TrapState { action: action, origin: Origin::User(origin), pending: false })',
                # documented: "clears all parent states remembered when entering a subshell, not only for the specified condition"
                'cond != Condition::Signal(S::SIGKILL) && cond != Condition::Signal(S::SIGSTOP) ==> forall|d: Condition| #[trigger] final(self).tab().contains_key(d) ==> final(self).tab()[d].parent() is None',
                # ... and every other record keeps its action, pending flag and internal disposition
                'forall|d: Condition| d != cond ==> (#[trigger] final(self).tab().contains_key(d) <==> old(self).tab().contains_key(d)) && (old(self).tab().contains_key(d) ==> final(self).tab()[d].cur() == old(self).tab()[d].cur() && final(self).tab()[d].internal() == old(self).tab()[d].internal())',
            ])),
        (TRAP, ['impl TrapSet', 'fn set_internal_disposition'], dict(ASYNC, ret='r',
            requires=['tinv(old(self).tab(), *old(system))'],
            ensures=[
                'tinv(final(self).tab(), *final(system))',
                'same_but(old(self).tab(), final(self).tab(), Condition::Signal(signal))',
                'r is Ok && final(self).tab().contains_key(Condition::Signal(signal)) ==> final(self).tab()[Condition::Signal(signal)].internal() == disposition',
                'r is Err ==> final(self).tab() =~= old(self).tab() && all_unchanged(*old(system), *final(system))',
                # the user's trap for that signal is not touched
                'actions_kept(old(self).tab(), final(self).tab())',
            ])),
        (TRAP, ['impl TrapSet', 'fn enable_internal_disposition_for_sigchld'], dict(ASYNC, ret='r',
            requires=['tinv(old(self).tab(), *old(system))'],
            ensures=[
                # shell-internal handler changes keep the table invariant and never touch a user's trap action
                'tinv(final(self).tab(), *final(system))',
                'actions_kept(old(self).tab(), final(self).tab())',
                'r is Ok && final(self).tab().contains_key(Condition::Signal(S::SIGCHLD)) ==> final(self).tab()[Condition::Signal(S::SIGCHLD)].internal() == Disposition::Catch',
            ])),
        (TRAP, ['impl TrapSet', 'fn enable_internal_dispositions_for_terminators'], dict(ASYNC, ret='r',
            requires=['tinv(old(self).tab(), *old(system))'],
            ensures=[
                # shell-internal handler changes keep the table invariant and never touch a user's trap action
                'tinv(final(self).tab(), *final(system))',
                'actions_kept(old(self).tab(), final(self).tab())',
                'r is Ok && S::SIGINT != S::SIGTERM && S::SIGINT != S::SIGQUIT && S::SIGTERM != S::SIGQUIT ==> want_internal(final(self).tab(), S::SIGINT, Disposition::Catch) && want_internal(final(self).tab(), S::SIGTERM, Disposition::Ignore) && want_internal(final(self).tab(), S::SIGQUIT, Disposition::Ignore)',
            ])),
        (TRAP, ['impl TrapSet', 'fn enable_internal_dispositions_for_stoppers'], dict(ASYNC, ret='r',
            requires=['tinv(old(self).tab(), *old(system))'],
            ensures=[
                # shell-internal handler changes keep the table invariant and never touch a user's trap action
                'tinv(final(self).tab(), *final(system))',
                'actions_kept(old(self).tab(), final(self).tab())',
                'r is Ok && S::SIGTSTP != S::SIGTTIN && S::SIGTSTP != S::SIGTTOU && S::SIGTTIN != S::SIGTTOU ==> want_internal(final(self).tab(), S::SIGTSTP, Disposition::Ignore) && want_internal(final(self).tab(), S::SIGTTIN, Disposition::Ignore) && want_internal(final(self).tab(), S::SIGTTOU, Disposition::Ignore)',
            ])),
        (TRAP, ['impl TrapSet', 'fn disable_internal_dispositions_for_terminators'], dict(ASYNC, ret='r',
            requires=['tinv(old(self).tab(), *old(system))'],
            ensures=[
                # shell-internal handler changes keep the table invariant and never touch a user's trap action
                'tinv(final(self).tab(), *final(system))',
                'actions_kept(old(self).tab(), final(self).tab())',
                'r is Ok && S::SIGINT != S::SIGTERM && S::SIGINT != S::SIGQUIT && S::SIGTERM != S::SIGQUIT ==> want_internal(final(self).tab(), S::SIGINT, Disposition::Default) && want_internal(final(self).tab(), S::SIGTERM, Disposition::Default) && want_internal(final(self).tab(), S::SIGQUIT, Disposition::Default)',
            ])),
        (TRAP, ['impl TrapSet', 'fn disable_internal_dispositions_for_stoppers'], dict(ASYNC, ret='r',
            requires=['tinv(old(self).tab(), *old(system))'],
            ensures=[
                # shell-internal handler changes keep the table invariant and never touch a user's trap action
                'tinv(final(self).tab(), *final(system))',
                'actions_kept(old(self).tab(), final(self).tab())',
                'r is Ok && S::SIGTSTP != S::SIGTTIN && S::SIGTSTP != S::SIGTTOU && S::SIGTTIN != S::SIGTTOU ==> want_internal(final(self).tab(), S::SIGTSTP, Disposition::Default) && want_internal(final(self).tab(), S::SIGTTIN, Disposition::Default) && want_internal(final(self).tab(), S::SIGTTOU, Disposition::Default)',
            ])),
        (TRAP, ['impl TrapSet', 'fn disable_internal_dispositions'], dict(ASYNC, ret='r',
            requires=['tinv(old(self).tab(), *old(system))'],
            ensures=[
                # shell-internal handler changes keep the table invariant and never touch a user's trap action
                'tinv(final(self).tab(), *final(system))',
                'actions_kept(old(self).tab(), final(self).tab())',
            ])),
        (TRAP, ['impl TrapSet', 'fn catch_signal'], {'ensures': [
            'same_but(old(self).tab(), final(self).tab(), Condition::Signal(signal))',
            'final(self).tab().contains_key(Condition::Signal(signal)) <==> old(self).tab().contains_key(Condition::Signal(signal))',
            'old(self).tab().contains_key(Condition::Signal(signal)) ==> ({ let a = old(self).tab()[Condition::Signal(signal)]; let b = final(self).tab()[Condition::Signal(signal)]; '
            'b.cur() == (TrapState { action: a.cur().action, origin: a.cur().origin, pending: true }) && b.parent() == a.parent() && b.internal() == a.internal() })',
        ]}),
        (TRAP, ['impl TrapSet', 'fn take_signal_if_caught'], {'ret': 'r', 'ensures': [
            # "each delivery of a trapped signal makes its action run exactly once": the flag of THIS signal decides and is cleared
            'r is Some <==> old(self).tab().contains_key(Condition::Signal(signal)) && old(self).tab()[Condition::Signal(signal)].cur().pending',
            'same_but(old(self).tab(), final(self).tab(), Condition::Signal(signal))',
            'final(self).tab().contains_key(Condition::Signal(signal)) <==> old(self).tab().contains_key(Condition::Signal(signal))',
            'old(self).tab().contains_key(Condition::Signal(signal)) ==> ({ let a = old(self).tab()[Condition::Signal(signal)]; let b = final(self).tab()[Condition::Signal(signal)]; '
            'b.cur() == (TrapState { action: a.cur().action, origin: a.cur().origin, pending: false }) && b.parent() == a.parent() && b.internal() == a.internal() })',
            'r is Some ==> *r->0 == final(self).tab()[Condition::Signal(signal)].cur()',
            ],
            'closures': {0: {'rewrite': 'and-then-to-match'}}}),
        (STATE, ['impl GrandState', 'fn current_state'], {'ret': 'r', 'ensures': ['*r == self.cur()']}),
        (STATE, ['impl GrandState', 'fn parent_state'], {'ret': 'r', 'ensures': ['(match r { Some(p) => Some(*p), None => None::<TrapState> }) == self.parent()']}),
        # get_state: what is known about a condition - its current state and the state remembered from before the subshell entry
        (TRAP, ['impl TrapSet', 'fn get_state_impl'], {'ret': 'r',
            'ensures': [
                '!self.tab().contains_key(cond) ==> r.0 is None && r.1 is None',
                'self.tab().contains_key(cond) ==> (r.0 matches Some(c) && *c == self.tab()[cond].cur()) && (match r.1 { Some(p) => Some(*p), None => None::<TrapState> }) == self.tab()[cond].parent()',
            ]}),
        # `trap -p` / peek_state: looking at a condition may create its record from what the system has installed, and changes nothing else
        (TRAP, ['impl TrapSet', 'fn peek_state_impl'], {'ret': 'r',
            'ensures': [
                'same_but(old(self).tab(), final(self).tab(), cond)',
                'old(self).tab().contains_key(cond) ==> final(self).tab().contains_key(cond) && final(self).tab()[cond] == old(self).tab()[cond] && r is Ok',
                '!old(self).tab().contains_key(cond) && r is Ok ==> final(self).tab().contains_key(cond) && final(self).tab()[cond].parent() is None && final(self).tab()[cond].internal() == Disposition::Default',
                '(!old(self).tab().contains_key(cond) && r is Ok && cond is Signal) ==> final(self).tab()[cond].cur() == initial_state(system.installed(cond->Signal_0))',
            ]}),
        ('@raw', '}\n'),
    ],
}
