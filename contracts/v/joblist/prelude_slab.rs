// Assumed contract on the dependency `slab` and on std functions vstd has no spec for (unit joblist).
// ---- assumed contract on the dependency `slab` (the crate is linked, not verified) ----------
#[verifier::external_type_specification]
#[verifier::external_body]
#[verifier::accept_recursive_types(T)]
pub struct ExSlab<T>(Slab<T>);

/// Abstract view of a slab: the finite map from occupied keys to values.
pub uninterp spec fn slab_map<T>(s: &Slab<T>) -> Map<usize, T>;

pub broadcast axiom fn axiom_slab_finite<T>(s: &Slab<T>)
    ensures #[trigger] slab_map(s).dom().finite();

pub assume_specification<T>[ Slab::<T>::new ]() -> (s: Slab<T>)
    ensures slab_map(&s) == Map::<usize, T>::empty();

pub assume_specification<T>[ Slab::<T>::len ](s: &Slab<T>) -> (n: usize)
    ensures n == slab_map(s).dom().len();

pub assume_specification<T>[ Slab::<T>::is_empty ](s: &Slab<T>) -> (b: bool)
    ensures
        b == (slab_map(s).dom().len() == 0),
        b == (forall|k: usize| !slab_map(s).contains_key(k)),
        b ==> slab_map(s) == Map::<usize, T>::empty();

pub assume_specification<T>[ Slab::<T>::contains ](s: &Slab<T>, key: usize) -> (b: bool)
    ensures b == slab_map(s).contains_key(key);

pub assume_specification<T>[ Slab::<T>::get ](s: &Slab<T>, key: usize) -> (r: Option<&T>)
    ensures
        slab_map(s).contains_key(key) ==> r == Some(&slab_map(s)[key]),
        !slab_map(s).contains_key(key) ==> r is None;

pub assume_specification<T>[ Slab::<T>::insert ](s: &mut Slab<T>, v: T) -> (key: usize)
    ensures
        !slab_map(old(s)).contains_key(key),
        slab_map(final(s)) == slab_map(old(s)).insert(key, v);

pub assume_specification<T>[ Slab::<T>::try_remove ](s: &mut Slab<T>, key: usize) -> (r: Option<T>)
    ensures
        slab_map(old(s)).contains_key(key) ==> r == Some(slab_map(old(s))[key]) && slab_map(final(s)) == slab_map(old(s)).remove(key),
        !slab_map(old(s)).contains_key(key) ==> r is None && slab_map(final(s)) == slab_map(old(s));

pub assume_specification<T>[ Slab::<T>::clear ](s: &mut Slab<T>)
    ensures slab_map(final(s)) == Map::<usize, T>::empty();

/// Indexing a slab requires an occupied key (it panics otherwise): with this axiom every
/// `self.jobs[i]` in the extracted code carries the proof obligation "i is occupied".
pub broadcast axiom fn axiom_slab_index_req<T>(s: &Slab<T>, k: usize)
    ensures #[trigger] s.index_req(&k) == slab_map(s).contains_key(k);

pub assume_specification<T>[ <Slab<T> as core::ops::Index<usize>>::index ](s: &Slab<T>, key: usize) -> (r: &T)
    ensures *r == slab_map(s)[key];

pub assume_specification<T>[ <Slab<T> as core::ops::IndexMut<usize>>::index_mut ](s: &mut Slab<T>, key: usize) -> (r: &mut T)
    ensures
        slab_map(old(s)).contains_key(key),
        *r == slab_map(old(s))[key],
        slab_map(final(s)) == slab_map(old(s)).insert(key, *final(r));

// ---- std ---------------------------------------------------------------------------------
pub assume_specification<'a, T: Copy>[ Option::<&'a T>::copied ](o: Option<&'a T>) -> (r: Option<T>)
    ensures
        o is None ==> r is None,
        o is Some ==> r == Some(*(o->0));

pub assume_specification<T>[ core::mem::replace::<T> ](dest: &mut T, src: T) -> (r: T)
    ensures r == *old(dest), *final(dest) == src;

// `debug_assert_eq!` expands to a call of `assert_failed` on the failing branch: with
// `requires false` every debug assertion of the extracted code becomes a proof obligation.
#[verifier::external_type_specification]
pub struct ExAssertKind(core::panicking::AssertKind);

pub assume_specification<T: core::fmt::Debug + ?Sized, U: core::fmt::Debug + ?Sized>[ core::panicking::assert_failed::<T, U> ](
    kind: core::panicking::AssertKind, left: &T, right: &U, args: Option<core::fmt::Arguments<'_>>) -> !
    requires false;

