// ---------------------------------------------------------------------------
// Prelude of unit globdir (property C05, kernel): yash-semantics/src/expansion/glob.rs SearchEnv::search_dir, one level of the
// directory walk of pathname expansion.
// C05 "matches the field component by component (slashes only match literally ...) ... never omits a matching one, never
// produces `.` or `..` from a wildcard": the field is cut at its first slash; a component that is no pattern (to_pattern says
// so, or the pattern is a literal) is appended as it is and the walk goes on WITHOUT reading the directory; a component that is
// a pattern makes the directory be read once, and every entry - in the order the directory hands them out - is taken exactly
// when its name is text, is neither `.` nor `..`, and the pattern matches it; each entry taken goes on to the rest of the field
// marked as existing; an interrupt or a divert from deeper down ends the walk at once.
//
// Hand-written model text (ASSUMED): push_component (the recursion: appends the component, goes on with the rest, restores the
// prefix), to_pattern + Pattern::into_literal (unit globchars has the character iterator; the translation is units fnparse /
// fnregex), Pattern::is_match (the regex engine), opendir / Dir::next, poll_signals, CString::new are opaque calls over an
// event log and uninterpreted functions; the position of the first slash (Iterator::position) and the two slices of the
// field through helpers with the std meaning; the two name comparisons with `.` / `..` are kept as real code against an
// uninterpreted text model of OsStr::to_str.
// ---------------------------------------------------------------------------
pub assume_specification<B, C>[ <ControlFlow<B, C> as core::ops::Try>::branch ](cf: ControlFlow<B, C>) -> (r: ControlFlow<<ControlFlow<B, C> as core::ops::Try>::Residual, <ControlFlow<B, C> as core::ops::Try>::Output>)
    ensures match cf { ControlFlow::Continue(c) => r == ControlFlow::<ControlFlow<B, core::convert::Infallible>, C>::Continue(c), ControlFlow::Break(b) => r == ControlFlow::<ControlFlow<B, core::convert::Infallible>, C>::Break(ControlFlow::Break(b)) };
pub assume_specification<B, C>[ <ControlFlow<B, C> as core::ops::FromResidual<ControlFlow<B, core::convert::Infallible>>>::from_residual ](res: ControlFlow<B, core::convert::Infallible>) -> (r: ControlFlow<B, C>)
    ensures res matches ControlFlow::Break(b) ==> r == ControlFlow::<B, C>::Break(b);
pub trait Fstat {} pub trait Open {} pub trait Select {} pub trait Signals {} pub trait WaitForSignals {}
pub struct Location { pub verif_opaque: u8 }
pub struct AttrChar { pub value: char, pub verif_c: int }
pub struct Field { pub verif_value: int }
pub struct ExitStatus(pub i32);
pub struct Interrupted(pub ExitStatus);
pub struct Pattern { pub verif_id: int }
pub struct DirName { pub verif_id: int }
/// a directory entry's name: what it is as text (None: not valid UTF-8), whether it is `.` / `..`
pub struct Name { pub verif_id: int }
pub uninterp spec fn name_is_dot(n: int) -> bool;
pub uninterp spec fn name_is_dotdot(n: int) -> bool;
pub uninterp spec fn name_is_text(n: int) -> bool;
pub uninterp spec fn matches(p: int, n: int) -> bool;
pub struct TextName { pub verif_id: int }
impl Name {
    /// OsStr::to_str
    #[verifier::external_body]
    pub fn to_str(&self) -> (r: Option<TextName>) ensures r is Some <==> name_is_text(self.verif_id), r matches Some(t) ==> t.verif_id == self.verif_id { unimplemented!() }
}
impl TextName {
    /// `name != "."` / `name != ".."`
    #[verifier::external_body]
    pub fn ne_dot(&self) -> (r: bool) ensures r == !name_is_dot(self.verif_id) { unimplemented!() }
    #[verifier::external_body]
    pub fn ne_dotdot(&self) -> (r: bool) ensures r == !name_is_dotdot(self.verif_id) { unimplemented!() }
}
impl TextName {
    /// other questions a variant of the code may ask about a name (str::len, str::starts_with): uninterpreted answers
    #[verifier::external_body]
    pub fn len(&self) -> (r: usize) { unimplemented!() }
    #[verifier::external_body]
    pub fn starts_with(&self, c: char) -> (r: bool) { unimplemented!() }
}
impl Pattern {
    #[verifier::external_body]
    pub fn is_match(&self, name: &TextName) -> (r: bool) ensures r == matches(self.verif_id, name.verif_id) { unimplemented!() }
}
pub struct DirEntry { pub name: Name }
pub struct Dir { pub rest: Ghost<Seq<int>> }
impl Dir {
    /// Dir::next: the next entry, or the end (Ok(None) / an error end the listing)
    #[verifier::external_body]
    pub fn next(&mut self) -> (r: Result<Option<DirEntry>, ()>)
        ensures r matches Ok(Some(e)) ==> old(self).rest@.len() > 0 && e.name.verif_id == old(self).rest@[0] && final(self).rest@ == old(self).rest@.subrange(1, old(self).rest@.len() as int),
            !(r matches Ok(Some(_))) ==> final(self).rest@ == old(self).rest@,
            // (an error in the middle of a listing is not modelled: the directory hands out all its entries)
            old(self).rest@.len() > 0 ==> r matches Ok(Some(_))
    { unimplemented!() }
}
pub enum Component { NotAPattern, Literal(int), Pat(Pattern) }
pub uninterp spec fn component_of(chars: Seq<AttrChar>) -> Component;
/// `to_pattern(this).map(Pattern::into_literal)`: None = not even a pattern, Some(Ok(text)) = a literal, Some(Err(p)) = a real pattern
#[verifier::external_body]
pub fn verif_component(this: &[AttrChar]) -> (r: Option<Result<LiteralText, Pattern>>)
    ensures match r { None => component_of(this@) is NotAPattern, Some(Ok(l)) => component_of(this@) == Component::Literal(l.verif_id), Some(Err(p)) => component_of(this@) == Component::Pat(p) }
{ unimplemented!() }
pub struct LiteralText { pub verif_id: int }
pub enum What { Unquoted(Seq<AttrChar>), Literal(int), Entry(int) }
pub enum Ev { Pushed { what: What, rest: Option<Seq<AttrChar>>, exists: bool, result: ControlFlow<Interrupted> }, Opened { ok: bool, entries: Seq<int> }, Polled }
pub struct Env<S> { pub log: Ghost<Seq<Ev>>, pub system: S }
pub struct SearchEnv<'e, S> { pub env: &'e mut Env<S>, pub interruptible: bool, pub verif_prefix_empty: bool, pub verif_prefix_ok: bool }
impl<'e, S> SearchEnv<'e, S> {
    /// push_component with the closure that appends the component; the three call sites differ in what is appended
    #[verifier::external_body]
    pub fn verif_push(&mut self, suffix: Option<&[AttrChar]>, file_exists: bool, Ghost(what): Ghost<What>) -> (r: ControlFlow<Interrupted>)
        ensures mut_ref_future(final(self).env) == mut_ref_future(old(self).env), final(self).interruptible == old(self).interruptible,
            final(self).env.log@ == old(self).env.log@.push(Ev::Pushed { what, rest: match suffix { Some(s) => Some(s@), None => None }, exists: file_exists, result: r })
    { unimplemented!() }
    /// the directory to read: `.` for an empty prefix, the prefix itself otherwise; None when the prefix has a NUL byte
    #[verifier::external_body]
    pub fn verif_dir_path(&self) -> (r: Option<DirName>) ensures r is Some <==> self.verif_prefix_ok { unimplemented!() }
    #[verifier::external_body]
    pub fn verif_opendir(&mut self, path: &DirName) -> (r: Result<Dir, ()>)
        ensures mut_ref_future(final(self).env) == mut_ref_future(old(self).env), final(self).interruptible == old(self).interruptible,
            final(self).env.log@ == old(self).env.log@.push(Ev::Opened { ok: r is Ok, entries: match r { Ok(d) => d.rest@, Err(_) => Seq::empty() } })
    { unimplemented!() }
    /// `self.interruptible && self.env.poll_signals().is_some_and(|sigs| sigs.contains(&S::SIGINT))`
    #[verifier::external_body]
    pub fn verif_interrupted(&mut self) -> (r: bool)
        ensures mut_ref_future(final(self).env) == mut_ref_future(old(self).env), final(self).interruptible == old(self).interruptible, final(self).env.log@ == old(self).env.log@,
            !old(self).interruptible ==> !r
    { unimplemented!() }
}
#[verifier::external_body]
pub fn verif_sigint_status() -> ExitStatus { unimplemented!() }
/// `suffix.iter().position(|c| c.value == '/')` (std): the first slash
#[verifier::external_body]
pub fn verif_first_slash(suffix: &[AttrChar]) -> (r: Option<usize>)
    ensures match r { Some(i) => i < suffix@.len() && suffix@[i as int].value == '/' && (forall|k: int| 0 <= k < i ==> (#[trigger] suffix@[k]).value != '/'), None => forall|k: int| 0 <= k < suffix@.len() ==> (#[trigger] suffix@[k]).value != '/' }
{ unimplemented!() }
#[verifier::external_body]
pub fn verif_before<'a>(suffix: &'a [AttrChar], index: usize) -> (r: &'a [AttrChar]) requires index <= suffix@.len() ensures r@ == suffix@.subrange(0, index as int) { &suffix[..index] }
#[verifier::external_body]
pub fn verif_after<'a>(suffix: &'a [AttrChar], index: usize) -> (r: &'a [AttrChar]) requires index < suffix@.len() ensures r@ == suffix@.subrange(index as int + 1, suffix@.len() as int) { &suffix[index + 1..] }
/// the entries of `d[0..n]` that are taken: text, not `.` / `..`, matched by the pattern
pub open spec fn taken(p: int, n: int) -> bool { name_is_text(n) && !name_is_dot(n) && !name_is_dotdot(n) && matches(p, n) }
/// how many of the entries qualify
pub open spec fn qcount(es: Seq<int>, p: int) -> nat decreases es.len() {
    if es.len() == 0 { 0 } else { qcount(es.drop_last(), p) + (if taken(p, es.last()) { 1nat } else { 0nat }) }
}
