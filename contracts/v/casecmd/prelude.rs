// ---------------------------------------------------------------------------
// Prelude of unit casecmd (property C02, kernel): the case command
// (yash-semantics/src/command/compound_command/case.rs execute).  XCU 2.9.4.3: the items are tried in order; the body of
// the first item one of whose patterns matches runs; `;;` ends the command, `;&` runs the body of the next item without
// testing it, `;|` goes on testing with the next item; the exit status is zero if no pattern matched and otherwise that
// of the last body executed (zero for an empty one); a divert out of a body is handed on.
//
// Hand-written model text (ASSUMED): expanding the subject, tracing, testing the patterns of ONE item (`matches`, which
// expands and compiles the patterns) and executing ONE body are opaque calls that drive a ghost monitor automaton in the
// reduced Env; the two calls are given the item itself instead of its `patterns` / `body` field so that the monitor knows
// which item they concern (items carry their index as ghost data).  The monitor sets `wrong` when a test or a run
// happens out of turn.  Testing patterns is assumed to leave `$?` alone.  Await points are dropped.
// ---------------------------------------------------------------------------
pub assume_specification<B, C>[ <ControlFlow<B, C> as core::ops::Try>::branch ](cf: ControlFlow<B, C>) -> (r: ControlFlow<<ControlFlow<B, C> as core::ops::Try>::Residual, <ControlFlow<B, C> as core::ops::Try>::Output>)
    ensures match cf { ControlFlow::Continue(c) => r == ControlFlow::<ControlFlow<B, core::convert::Infallible>, C>::Continue(c), ControlFlow::Break(b) => r == ControlFlow::<ControlFlow<B, core::convert::Infallible>, C>::Break(ControlFlow::Break(b)) };
pub assume_specification<B, C>[ <ControlFlow<B, C> as core::ops::FromResidual<ControlFlow<B, core::convert::Infallible>>>::from_residual ](res: ControlFlow<B, core::convert::Infallible>) -> (r: ControlFlow<B, C>)
    ensures res matches ControlFlow::Break(b) ==> r == ControlFlow::<B, C>::Break(b);

pub trait Runtime {}
pub struct Location { pub verif_opaque: u8 }
pub struct Word { pub verif_opaque: u8 }
pub struct Field { pub value: String, pub origin: Location }
pub struct Item { pub verif_opaque: u8 }
pub struct List(pub Vec<Item>);
pub struct CaseItem { pub patterns: Vec<Word>, pub body: List, pub continuation: CaseContinuation, pub verif_idx: Ghost<int> }
pub struct ExpError { pub verif_opaque: u8 }

/// what happened last
pub enum Last {
    Start,
    /// the patterns of item `idx` were tested
    Matched { idx: int, hit: bool },
    /// the body of item `idx` ran; `cont` is what the item says to do next
    Ran { idx: int, cont: CaseContinuation, result: Result },
    /// testing the patterns failed (an expansion error)
    Failed,
}
pub struct Mon {
    pub last: Last,
    /// a test or a run happened out of turn
    pub wrong: bool,
    pub runs: nat,
    /// `$?` after the most recent run, and whether that body was empty
    pub last_status: ExitStatus,
    pub last_empty: bool,
    pub handled: nat,
    pub last_handled: Option<Result>,
}
pub struct Env<S> { pub exit_status: ExitStatus, pub mon: Ghost<Mon>, pub system: S }

/// the patterns of item `idx` may be tested now: it is the first item, or the item before it was tested and did not
/// match, or the item before it ran (normally) and says `;|`
pub open spec fn may_test(last: Last, idx: int) -> bool {
    match last {
        Last::Start => idx == 0,
        Last::Matched { idx: p, hit } => !hit && idx == p + 1,
        Last::Ran { idx: p, cont, result } => cont is Continue && result is Continue && idx == p + 1,
        Last::Failed => false,
    }
}
/// the body of item `idx` may run now: its patterns were just tested and matched, or the item before it ran (normally)
/// and says `;&`
pub open spec fn may_run(last: Last, idx: int) -> bool {
    match last {
        Last::Matched { idx: p, hit } => hit && idx == p,
        Last::Ran { idx: p, cont, result } => cont is FallThrough && result is Continue && idx == p + 1,
        _ => false,
    }
}
/// nothing is left to do for a command of n items
pub open spec fn finished(last: Last, n: int) -> bool {
    match last {
        Last::Start => n == 0,
        Last::Matched { idx, hit } => !hit && idx == n - 1,
        Last::Ran { idx, cont, result } => result is Continue && (cont is Break || idx == n - 1),
        Last::Failed => false,
    }
}
/// the loop of the code stands before item i, with its flag `falling_through`
pub open spec fn state_ok(last: Last, falling: bool, i: int) -> bool {
    match last {
        Last::Start => i == 0 && !falling,
        Last::Matched { idx, hit } => !hit && idx + 1 == i && !falling,
        Last::Ran { idx, cont, result } => result is Continue && idx + 1 == i && !(cont is Break) && (falling == (cont is FallThrough)),
        Last::Failed => false,
    }
}
pub open spec fn items_wf(items: Seq<CaseItem>) -> bool { forall|i: int| 0 <= i < items.len() ==> (#[trigger] items[i]).verif_idx@ == i }

#[verifier::external_body]
pub fn expand_word<S>(env: &mut Env<S>, word: &Word) -> (r: std::result::Result<(Field, Option<ExitStatus>), ExpError>)
    ensures final(env).mon@ == old(env).mon@
{ unimplemented!() }
#[verifier::external_body]
pub fn trace_subject<S>(env: &mut Env<S>, value: &String)
    ensures final(env).mon@ == old(env).mon@, final(env).exit_status == old(env).exit_status
{ unimplemented!() }
/// case.rs matches(env, subject, &item.patterns): does one of the patterns of the item match the subject?
#[verifier::external_body]
pub fn matches<S>(env: &mut Env<S>, subject: &String, item: &CaseItem) -> (r: std::result::Result<bool, ExpError>)
    ensures final(env).mon@ == (Mon {
            last: match r { Ok(hit) => Last::Matched { idx: item.verif_idx@, hit }, Err(_) => Last::Failed },
            wrong: old(env).mon@.wrong || !may_test(old(env).mon@.last, item.verif_idx@),
            ..old(env).mon@ }),
        final(env).exit_status == old(env).exit_status
{ unimplemented!() }
/// item.body.execute(env)
#[verifier::external_body]
pub fn verif_run_body<S>(item: &CaseItem, env: &mut Env<S>) -> (r: Result)
    ensures final(env).mon@ == (Mon {
            last: Last::Ran { idx: item.verif_idx@, cont: item.continuation, result: r },
            wrong: old(env).mon@.wrong || !may_run(old(env).mon@.last, item.verif_idx@),
            runs: old(env).mon@.runs + 1,
            last_status: final(env).exit_status,
            last_empty: item.body.0@.len() == 0,
            ..old(env).mon@ })
{ unimplemented!() }
impl ExpError {
    #[verifier::external_body]
    pub fn handle<S>(&self, env: &mut Env<S>) -> (r: Result)
        ensures final(env).mon@ == (Mon { handled: old(env).mon@.handled + 1, last_handled: Some(r), ..old(env).mon@ })
    { unimplemented!() }
}
