# Unit compoundlist: Parser::maybe_compound_list (kernel of C02).
LS = 'yash-syntax/src/parser/list.rs'
IMPL = "impl Parser<'_, '_>"
MOD_HEAD = '''    use vstd::prelude::*;
'''
M0 = 'old(self).mon@'
M1 = 'final(self).mon@'
INNER = ('invariant_except_break self.mon@.items =~= ' + M0 + '.items + ids(items@) '
         'ensures self.mon@.items =~= ' + M0 + '.items + ids(items@) + ids(verif_lv.0@),')
UNIT = {
    'name': 'compoundlist',
    'property': 'C02',
    'rlimit': 60,
    'verus_args': ['--edition=2024'],
    'vacuity_floor': 1,
    'controls': {LS + "::Parser<'_, '_>::maybe_compound_list": {'ensures': {'append': 'false'}}},
    'control_expect': ['maybe_compound_list'],
    'items': [
        ('@raw', 'pub mod cpl {\n' + MOD_HEAD),
        ('@file', 'prelude.rs'),
        (LS, [IMPL, 'fn maybe_compound_list'], {'ret': 'r', 'rewrites': ['strip-async'],
            'attrs': ['#[verifier::loop_isolation(false)]', '#[verifier::allow_complex_invariants]', '#[verifier::exec_allows_no_decreases_clause]'],
            'token_rewrites': [
                ('let mut items = vec ! [ ] ;', 'let mut items: Vec<Item> = Vec::new();'),
                # rule loop-break-value
                ('let list = loop { if let Rec :: Parsed ( list ) = self . list ( ) . await ? { break list ; } } ;',
                 'let verif_lv: List; loop ' + INNER + ' { if let Rec::Parsed(list) = self.list()? { verif_lv = list; break; } } let list = verif_lv;'),
                ('items . extend ( list . 0 ) ;', 'verif_extend(&mut items, list.0);', '*'),
            ],
            'ensures': [
                # the items of all the lists parsed, in order, none dropped, none twice
                'r matches Ok(l) ==> ' + M1 + '.items =~= ' + M0 + '.items + ids(l.0@)',
                # the body ends at a clause delimiter, which is looked at and not consumed; anything else is an error
                'r is Ok ==> clause_delimiter(final(self).verif_next@)',
            ],
            'loops': {0: {'invariant': ['self.mon@.items =~= ' + M0 + '.items + ids(items@)']}}}),
        ('@raw', '}\n'),
    ],
}
