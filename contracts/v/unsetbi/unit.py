# Unit unsetbi: the unset built-in (kernel of C16).
US = 'yash-builtin/src/unset/semantics.rs'
UM = 'yash-builtin/src/unset.rs'
MOD_HEAD = '''    use vstd::prelude::*;
    use std::rc::Rc;
'''
V0 = 'old(env).variables.log@'
V1 = 'final(env).variables.log@'
F0 = 'old(env).functions.log@'
F1 = 'final(env).functions.log@'
def loop_inv(field):
    L = 'env.' + field + '.log@'
    return [
        'verif_i <= names@.len()',
        L + '.len() == verif_l0.len() + verif_i', L + '.subrange(0, verif_l0.len() as int) == verif_l0',
        'forall|k: int| 0 <= k < verif_i ==> (#[trigger] ' + L + '[verif_l0.len() + k]).name == names@[k].value@ && ' + L + '[verif_l0.len() + k].scope == Scope::Global',
        'errors@.len() == refused(' + L + ', verif_l0.len() as int)',
    ]
def post(L0, L1, other0, other1):
    return [
        # every operand is unset, each exactly once, in order, in the global scope
        L1 + '.len() == ' + L0 + '.len() + names@.len()', L1 + '.subrange(0, ' + L0 + '.len() as int) == ' + L0,
        'forall|k: int| 0 <= k < names@.len() ==> (#[trigger] ' + L1 + '[' + L0 + '.len() + k]).name == names@[k].value@ && ' + L1 + '[' + L0 + '.len() + k].scope == Scope::Global',
        # nothing else is touched
        other1 + ' == ' + other0,
        # one error per refused name
        'r@.len() == refused(' + L1 + ', ' + L0 + '.len() as int)',
    ]
UNIT = {
    'name': 'unsetbi',
    'property': 'C16',
    'rlimit': 60,
    'verus_args': ['--edition=2024'],
    'vacuity_floor': 2,
    'items': [
        ('@raw', 'pub mod ub {\n' + MOD_HEAD),
        ('@file', 'prelude.rs'),
        (US, ['struct UnsetVariablesError']),
        (US, ['struct UnsetFunctionsError']),
        (US, ['fn unset_variables'], {'ret': 'r',
            'attrs': ['#[verifier::loop_isolation(false)]'],
            'entry_ghost': 'let ghost verif_l0 = env.variables.log@;',
            # a type annotation only (the invariant names `errors` before rustc has inferred its type from the push below)
            'token_rewrites': [('let mut errors = Vec :: new ( ) ;', "let mut errors: Vec<UnsetVariablesError<'a>> = Vec::new();"), ('for name in names', 'let mut verif_i: usize = 0; while verif_i < names.len()')],
            'ensures': post(V0, V1, F0, F1),
            'loops': {0: {'body_start': 'let name = &names[verif_i]; verif_i += 1; let ghost verif_lb = env.variables.log@;',
                          'body_end': 'proof { assert(env.variables.log@.drop_last() =~= verif_lb); }',
                          'invariant': loop_inv('variables') + ['env.functions.log@ == old(env).functions.log@'], 'decreases': ['names@.len() - verif_i']}}}),
        (US, ['fn unset_functions'], {'ret': 'r',
            'attrs': ['#[verifier::loop_isolation(false)]'],
            'entry_ghost': 'let ghost verif_l0 = env.functions.log@;',
            'token_rewrites': [('let mut errors = Vec :: new ( ) ;', "let mut errors: Vec<UnsetFunctionsError<'a>> = Vec::new();"), ('for name in names', 'let mut verif_i: usize = 0; while verif_i < names.len()')],
            'ensures': post(F0, F1, V0, V1),
            'loops': {0: {'body_start': 'let name = &names[verif_i]; verif_i += 1; let ghost verif_lb = env.functions.log@;',
                          'body_end': 'proof { assert(env.functions.log@.drop_last() =~= verif_lb); }',
                          'invariant': loop_inv('functions') + ['env.variables.log@ == old(env).variables.log@'], 'decreases': ['names@.len() - verif_i']}}}),
        ('@raw', '}\n'),
    ],
}
