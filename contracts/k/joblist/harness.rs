//! Contracts of `JobList` (property C12), proved by Kani as an inductive step:
//! for EVERY well-formed table of a given concrete shape (which slab slots exist,
//! which are holes, free-list order) with ALL contents symbolic (pids, process
//! states, flags, current/previous indices, operation arguments), each mutator
//! re-establishes `wf` and satisfies its postcondition.  Injected as a child module
//! of yash-env/src/job.rs in the scratch copy, so private fields are reachable.
//!
//! `wf` is the property statement's five clauses, phrased over the public
//! observers (`current_job`, `previous_job`, `get`, `find_by_pid`, `len`).
#![allow(dead_code, unused_imports, unused_macros)]
use super::*;
use std::num::NonZero;

/// Upper bound on slab slots in any shape harness below (the stated bound of C12).
const MAXN: usize = 4;

fn any_signal() -> signal::Number {
    let raw: i32 = kani::any();
    kani::assume(raw != 0);
    signal::Number::from_raw_unchecked(NonZero::new(raw).unwrap())
}

fn any_result() -> ProcessResult {
    let k: u8 = kani::any();
    match k % 3 {
        0 => ProcessResult::Stopped(any_signal()),
        1 => ProcessResult::Exited(ExitStatus(kani::any())),
        _ => ProcessResult::Signaled { signal: any_signal(), core_dump: kani::any() },
    }
}

pub(super) fn any_state() -> ProcessState {
    if kani::any() { ProcessState::Running } else { ProcessState::Halted(any_result()) }
}

pub(super) fn any_job() -> Job {
    any_job_with_pid(Pid(kani::any()))
}

pub(super) fn any_job_with_pid(pid: Pid) -> Job {
    Job {
        pid,
        job_controlled: kani::any(),
        state: any_state(),
        expected_state: if kani::any() { Some(any_state()) } else { None },
        state_changed: kani::any(),
        is_owned: kani::any(),
        name: String::new(),
    }
}

/// One of the values 0..=slots+1 (concrete, chosen by the caller's loop) or, for
/// `k == slots + 2`, an arbitrary larger value: together these cover every `usize`,
/// because an index beyond `slots + 1` can never become live by a single operation and
/// is only ever compared and bounds-checked.
pub(super) fn index_choice(k: usize, slots: usize) -> usize {
    if k <= slots + 1 {
        k
    } else {
        let far: usize = kani::any();
        kani::assume(far > slots + 1);
        far
    }
}

/// Scalar snapshot of a job (everything but the name, which is always empty here).
#[derive(Clone, Copy, PartialEq, Eq)]
pub(super) struct JS {
    pid: Pid,
    job_controlled: bool,
    pub(super) state: ProcessState,
    expected_state: Option<ProcessState>,
    state_changed: bool,
    is_owned: bool,
}

pub(super) fn js(j: &Job) -> JS {
    JS { pid: j.pid, job_controlled: j.job_controlled, state: j.state, expected_state: j.expected_state,
         state_changed: j.state_changed, is_owned: j.is_owned }
}

/// Snapshot of the observable table through the public observers.
#[derive(Clone, Copy)]
pub(super) struct Snap {
    pub(super) jobs: [Option<JS>; MAXN + 2],
    pub(super) len: usize,
    cur: Option<usize>,
    prev: Option<usize>,
}

impl Snap {
    pub(super) fn get(&self, i: usize) -> Option<JS> {
        if i < MAXN + 2 { self.jobs[i] } else { None }
    }
    pub(super) fn find(&self, pid: Pid, n: usize) -> Option<usize> {
        let mut i = 0;
        while i < n {
            if let Some(j) = self.jobs[i] {
                if j.pid == pid {
                    return Some(i);
                }
            }
            i += 1;
        }
        None
    }
    fn suspended(&self, n: usize) -> usize {
        let mut c = 0;
        let mut i = 0;
        while i < n {
            if let Some(j) = self.jobs[i] {
                if j.state.is_stopped() {
                    c += 1;
                }
            }
            i += 1;
        }
        c
    }
}

pub(super) fn snapshot(list: &JobList, n: usize) -> Snap {
    let mut jobs = [None; MAXN + 2];
    let mut i = 0;
    while i < n {
        jobs[i] = list.get(i).map(js);
        i += 1;
    }
    Snap { jobs, len: list.len(), cur: list.current_job(), prev: list.previous_job() }
}

/// Builds a table of the given shape by REAL operations (so the slab's free list is a
/// reachable one), then makes every content symbolic.
/// `slots`: number of slab entries ever allocated; `holes`: indices removed, in order.
pub(super) fn shaped_list(slots: usize, holes: &[usize], cur: usize, prev: usize) -> JobList {
    let mut list = JobList::default();
    // capacity is not observable; reserving keeps reallocation (a byte-wise copy of symbolic
    // jobs, very expensive for CBMC) out of the operation under proof
    list.jobs = Slab::with_capacity(MAXN + 2);
    list.pids_to_indices = HashMap::with_capacity(MAXN + 2);
    let mut i = 0;
    while i < slots {
        // distinct concrete pids just to allocate the slots
        let idx = list.jobs.insert(Job::new(Pid(1000 + i as i32)));
        assert!(idx == i);
        i += 1;
    }
    let mut h = 0;
    while h < holes.len() {
        list.jobs.remove(holes[h]);
        h += 1;
    }
    // symbolic contents
    let mut i = 0;
    while i < slots {
        if list.jobs.contains(i) {
            // pids are concrete and pairwise distinct: the table uses a pid only through
            // equality (assumed, see unit.py), so any well-formed pid assignment is a renaming of this one
            let job = any_job_with_pid(Pid(100 + i as i32));
            list.pids_to_indices.insert(job.pid, i);
            list.jobs[i] = job;
        }
        i += 1;
    }
    list.current_job_index = cur;
    list.previous_job_index = prev;
    list.last_async_pid = Pid(kani::any());
    list
}

/// Runs `body` on every (current, previous) index pair: see `index_choice`.
macro_rules! for_all_index_pairs {
    ($slots:expr, |$cur:ident, $prev:ident| $body:block) => {
        let mut kc = 0;
        while kc <= $slots + 2 {
            let mut kp = 0;
            while kp <= $slots + 2 {
                let $cur = index_choice(kc, $slots);
                let $prev = index_choice(kp, $slots);
                $body
                kp += 1;
            }
            kc += 1;
        }
    };
}

/// The five clauses of C12 over a snapshot (n = number of slab slots inspected).
pub(super) fn wf(list: &JobList, n: usize) -> bool {
    wf_snap(&snapshot(list, n), list, n)
}

pub(super) fn wf_snap(s: &Snap, list: &JobList, n: usize) -> bool {
    let len = s.len;
    // the snapshot window sees every job
    let mut live = 0;
    let mut i = 0;
    while i < n {
        if s.jobs[i].is_some() {
            live += 1;
        }
        i += 1;
    }
    if live != len {
        return false;
    }
    // (5) each pid designates at most one job; the pid index is in sync with the table
    if list.pids_to_indices.len() != len {
        return false;
    }
    let mut i = 0;
    while i < n {
        if let Some(j) = s.jobs[i] {
            if list.find_by_pid(j.pid) != Some(i) {
                return false;
            }
        }
        i += 1;
    }
    // (1) a non-empty table has a current job
    if len > 0 {
        match s.cur {
            Some(c) => {
                if s.get(c).is_none() {
                    return false;
                }
            }
            None => return false,
        }
    }
    // (2) two or more jobs imply a previous job distinct from it
    if len >= 2 {
        match s.prev {
            Some(p) => {
                if s.get(p).is_none() || Some(p) == s.cur {
                    return false;
                }
            }
            None => return false,
        }
    }
    // (3) whenever suspended jobs exist the current job is suspended
    let susp = s.suspended(n);
    if susp >= 1 {
        match s.cur.and_then(|c| s.get(c)) {
            Some(j) => {
                if !j.state.is_stopped() {
                    return false;
                }
            }
            None => return false,
        }
    }
    // (4) with two or more, the previous job is too
    if susp >= 2 {
        match s.prev.and_then(|p| s.get(p)) {
            Some(j) => {
                if !j.state.is_stopped() {
                    return false;
                }
            }
            None => return false,
        }
    }
    true
}

/// "a job's number never changes while the job exists": every index other than
/// `except` holds the job it held before.
fn others_unchanged(pre: &Snap, post: &Snap, n: usize, except: Option<usize>) -> bool {
    let mut i = 0;
    while i < n {
        if Some(i) != except && pre.jobs[i] != post.jobs[i] {
            return false;
        }
        i += 1;
    }
    true
}

fn same_table(pre: &Snap, post: &Snap, n: usize) -> bool {
    others_unchanged(pre, post, n, None) && pre.len == post.len && pre.cur == post.cur && pre.prev == post.prev
}

fn is_susp(s: &Snap, i: Option<usize>) -> Option<bool> {
    match i {
        Some(i) => s.get(i).map(|j| j.state.is_stopped()),
        None => None,
    }
}

// ---------------------------------------------------------------- insert
fn check_insert(slots: usize, holes: &[usize]) {
    let n = slots + 1;
    for_all_index_pairs!(slots, |cur, prev| {
        let mut list = shaped_list(slots, holes, cur, prev);
        let pre = snapshot(&list, n);
        if wf_snap(&pre, &list, n) {
            let job = any_job();
            let expected = js(&job);
            // precondition from the property's quantifier: fresh pid, or pid of a finished job
            let existing = pre.find(job.pid, n);
            let pre_ok = match existing {
                Some(e) => !pre.get(e).unwrap().state.is_alive(),
                None => true,
            };
            if pre_ok {
                kani::cover!(existing.is_some(), "insert: pid of a finished job is reachable");
                kani::cover!(existing.is_none(), "insert: fresh pid is reachable");
                let pre_cur_susp = is_susp(&pre, pre.cur);
                let pre_prev_susp = is_susp(&pre, pre.prev);
                let new_susp = expected.state.is_stopped();

                let index = list.insert(job);

                assert!(index < n, "insert: numbers are allocated densely");
                let post = snapshot(&list, n);
                assert!(wf_snap(&post, &list, n), "insert: wf re-established");
                assert!(post.get(index) == Some(expected), "insert: the returned index holds the job");
                assert!(list.find_by_pid(expected.pid) == Some(index), "insert: pid designates the new job");
                assert!(others_unchanged(&pre, &post, n, Some(index)), "insert: no other job number changes");
                match existing {
                    Some(e) => {
                        assert!(index == e, "insert: a finished job with the same pid is replaced in place");
                        assert!(post.len == pre.len);
                    }
                    None => {
                        assert!(pre.get(index).is_none(), "insert: a fresh job takes an unused number");
                        assert!(post.len == pre.len + 1);
                        // documented re-selection (job.rs, `insert`)
                        match pre_cur_susp {
                            None => assert!(post.cur == Some(index), "insert: first job becomes current"),
                            Some(false) if new_susp => {
                                assert!(post.cur == Some(index), "insert: suspended job becomes current over a running one");
                                assert!(post.prev == pre.cur, "insert: old current becomes previous");
                            }
                            Some(_) => {
                                assert!(post.cur == pre.cur, "insert: current job kept");
                                match pre_prev_susp {
                                    None => assert!(post.prev == Some(index), "insert: second job becomes previous"),
                                    Some(false) if new_susp => assert!(post.prev == Some(index), "insert: suspended job becomes previous over a running one"),
                                    Some(_) => assert!(post.prev == pre.prev, "insert: previous job kept"),
                                }
                            }
                        }
                    }
                }
            }
        }
    });
}

// ---------------------------------------------------------------- remove
fn check_remove(slots: usize, holes: &[usize]) {
    let n = slots + 1;
    for_all_index_pairs!(slots, |cur, prev| {
        let mut ki = 0;
        while ki <= slots + 2 {
            let index = index_choice(ki, slots);
            let mut list = shaped_list(slots, holes, cur, prev);
            let pre = snapshot(&list, n);
            if wf_snap(&pre, &list, n) {
                kani::cover!(pre.get(index).is_some(), "remove: live index reachable");

                let removed = list.remove(index);

                let post = snapshot(&list, n);
                match pre.get(index) {
                    None => {
                        assert!(removed.is_none(), "remove: None for an index that is not live");
                        assert!(same_table(&pre, &post, n), "remove: no change for an index that is not live");
                    }
                    Some(j) => {
                        assert!(removed.as_ref().map(js) == Some(j), "remove: the job is returned");
                        assert!(post.get(index).is_none(), "remove: the number is free");
                        assert!(list.find_by_pid(j.pid).is_none(), "remove: pid no longer designates a job");
                        assert!(post.len == pre.len - 1);
                        assert!(others_unchanged(&pre, &post, n, Some(index)), "remove: no other job number changes");
                        // documented: removing the current job promotes the previous job
                        if Some(index) == pre.cur && post.len > 0 {
                            assert!(post.cur == pre.prev, "remove: previous job becomes current");
                        }
                        if Some(index) != pre.cur {
                            assert!(post.cur == pre.cur, "remove: current job kept");
                        }
                        if Some(index) != pre.cur && Some(index) != pre.prev {
                            assert!(post.prev == pre.prev, "remove: previous job kept");
                        }
                    }
                }
                assert!(wf_snap(&post, &list, n), "remove: wf re-established");
                if post.len == 0 {
                    let idx = list.insert(Job::new(Pid(1)));
                    assert!(idx == 0, "remove: numbering restarts at 0 after the table is emptied");
                }
            }
            ki += 1;
        }
    });
}

// ---------------------------------------------------------------- update_status
fn check_update_status(slots: usize, holes: &[usize]) {
    let n = slots + 1;
    for_all_index_pairs!(slots, |cur, prev| {
        let mut list = shaped_list(slots, holes, cur, prev);
        let pre = snapshot(&list, n);
        if wf_snap(&pre, &list, n) {
            let pid = Pid(kani::any());
            let state = any_state();
            let target = pre.find(pid, n);
            kani::cover!(target.is_some(), "update_status: known pid reachable");

            let result = list.update_status(pid, state);

            let post = snapshot(&list, n);
            assert!(result == target, "update_status: index of the job with that pid, None iff unknown");
            match target {
                None => assert!(same_table(&pre, &post, n), "update_status: unknown pid changes nothing"),
                Some(t) => {
                    assert!(others_unchanged(&pre, &post, n, Some(t)), "update_status: only that job changes");
                    let a = pre.get(t).unwrap();
                    let b = post.get(t).unwrap();
                    assert!(b.pid == a.pid && b.job_controlled == a.job_controlled && b.is_owned == a.is_owned,
                            "update_status: pid and flags of the job untouched");
                    assert!(b.state == state, "update_status: state recorded");
                    assert!(b.expected_state.is_none(), "update_status: expectation cleared");
                    assert!(b.state_changed == (a.state_changed || a.expected_state != Some(state)), "update_status: state_changed rule");
                    assert!(post.len == pre.len);
                }
            }
            assert!(wf_snap(&post, &list, n), "update_status: wf re-established");
        }
    });
}

// ---------------------------------------------------------------- set_current_job
fn check_set_current_job(slots: usize, holes: &[usize]) {
    let n = slots + 1;
    for_all_index_pairs!(slots, |cur, prev| {
        let mut ki = 0;
        while ki <= slots + 2 {
            let index = index_choice(ki, slots);
            let mut list = shaped_list(slots, holes, cur, prev);
            let pre = snapshot(&list, n);
            if wf_snap(&pre, &list, n) {
                let any_susp = pre.suspended(n) > 0;

                let result = list.set_current_job(index);

                let post = snapshot(&list, n);
                match pre.get(index) {
                    None => {
                        assert!(result == Err(SetCurrentJobError::NoSuchJob), "set_current_job: NoSuchJob");
                        assert!(same_table(&pre, &post, n), "set_current_job: error changes nothing");
                    }
                    Some(j) => {
                        if !j.state.is_stopped() && any_susp {
                            assert!(result == Err(SetCurrentJobError::NotSuspended), "set_current_job: NotSuspended");
                            assert!(same_table(&pre, &post, n), "set_current_job: error changes nothing");
                        } else {
                            assert!(result == Ok(()), "set_current_job: accepted");
                            assert!(post.cur == Some(index), "set_current_job: selected job is current");
                            if pre.cur != Some(index) {
                                assert!(post.prev == pre.cur, "set_current_job: old current becomes previous");
                            }
                            assert!(others_unchanged(&pre, &post, n, None), "set_current_job: no job changes");
                        }
                    }
                }
                assert!(wf_snap(&post, &list, n), "set_current_job: wf re-established");
            }
            ki += 1;
        }
    });
}

// ---------------------------------------------------------------- extract_if / remove_if
fn check_extract_if(slots: usize, holes: &[usize]) {
    let n = slots + 1;
    for_all_index_pairs!(slots, |cur, prev| {
        let mut list = shaped_list(slots, holes, cur, prev);
        let pre = snapshot(&list, n);
        if wf_snap(&pre, &list, n) {
            // an arbitrary predicate on the index (symbolic bit mask) that also exercises state_reported
            let mask: u8 = kani::any();
            let stop_after: u8 = kani::any();
            let mut yielded = 0u8;
            {
                let mut it = list.extract_if(|i, mut job| {
                    job.state_reported();
                    i < 8 && (mask >> i) & 1 == 1
                });
                // dropping the iterator early must leave wf as well
                let mut rounds = 0;
                while rounds < n + 1 && yielded < stop_after {
                    match it.next() {
                        Some((i, job)) => {
                            assert!(pre.get(i).map(|j| j.pid) == Some(job.pid), "extract_if: yields the job that had that number");
                            assert!((mask >> i) & 1 == 1, "extract_if: only matching jobs are removed");
                            yielded += 1;
                        }
                        None => break,
                    }
                    rounds += 1;
                }
            }
            let post = snapshot(&list, n);
            assert!(wf_snap(&post, &list, n), "extract_if: wf holds whenever the iterator is dropped");
            let mut i = 0;
            while i < n {
                if let Some(j) = post.jobs[i] {
                    let p = pre.jobs[i];
                    assert!(p.is_some() && p.unwrap().pid == j.pid, "extract_if: surviving jobs keep their numbers");
                    if stop_after as usize > n {
                        assert!((mask >> i) & 1 == 0, "extract_if: a full pass removes every matching job");
                    }
                }
                i += 1;
            }
        }
    });
}

// ---------------------------------------------------------------- observers
fn check_observers(slots: usize, holes: &[usize]) {
    let n = slots + 1;
    for_all_index_pairs!(slots, |cur, prev| {
        let list = shaped_list(slots, holes, cur, prev);
        let pre = snapshot(&list, n);
        if wf_snap(&pre, &list, n) {
            // contracts of the two private selectors used by remove / update_status
            match list.any_suspended_job_but_current() {
                Some(i) => {
                    assert!(i != list.current_job_index, "any_suspended_job_but_current: not the current job");
                    assert!(pre.get(i).unwrap().state.is_stopped(), "any_suspended_job_but_current: suspended");
                }
                None => {
                    let mut i = 0;
                    while i < n {
                        if let Some(j) = pre.jobs[i] {
                            assert!(i == list.current_job_index || !j.state.is_stopped(), "any_suspended_job_but_current: None only if there is none");
                        }
                        i += 1;
                    }
                }
            }
            match list.any_job_but_current() {
                Some(i) => assert!(i != list.current_job_index && pre.get(i).is_some(), "any_job_but_current: a live job other than current"),
                None => assert!(pre.len <= 1, "any_job_but_current: None only with <= 1 job"),
            }
            // job ID resolution (%%, %+, %-, %n) = current / previous / get(n-1)
            let id_cur = id::JobId::CurrentJob.find(&list);
            assert!(id_cur.ok() == pre.cur, "%% and %+ designate the current job");
            let id_prev = id::JobId::PreviousJob.find(&list);
            assert!(id_prev.ok() == pre.prev, "%- designates the previous job");
            let mut k = 1;
            while k <= n {
                let id_n = id::JobId::JobNumber(NonZero::new(k).unwrap()).find(&list);
                match pre.get(k - 1) {
                    Some(_) => assert!(id_n == Ok(k - 1), "%n designates job number n"),
                    None => assert!(id_n.is_err(), "%n fails for a free number"),
                }
                k += 1;
            }
        }
    });
}

// ---------------------------------------------------------------- negative control
/// Must FAIL: the precondition on pid reuse is dropped, so the invariant is not inductive
/// (a live suspended job's pid is reused).  Guards against a vacuous wf.
fn control_insert_without_pid_precondition(slots: usize, holes: &[usize]) {
    let n = slots + 1;
    for_all_index_pairs!(slots, |cur, prev| {
        let mut list = shaped_list(slots, holes, cur, prev);
        let pre = snapshot(&list, n);
        if wf_snap(&pre, &list, n) {
            let job = any_job();
            list.insert(job);
            assert!(wf(&list, n), "CONTROL (expected to fail): insert preserves wf without the pid precondition");
        }
    });
}

macro_rules! shape_harnesses {
    ($( $name:ident : $check:ident ( $slots:expr, [ $($h:expr),* ] ) ;)*) => {
        $(
            #[kani::proof]
            #[kani::unwind(9)]
            fn $name() { $check($slots, &[$($h),*]); }
        )*
    };
}

// Shapes: q_ = quick tier (<= 3 slots, the shapes that exercise every branch),
//         t_ = thorough tier only (all 15 shapes with <= 3 slots, plus 4-slot shapes).
shape_harnesses! {
    c12q_insert_s0:        check_insert(0, []);
    c12q_insert_s1:        check_insert(1, []);
    c12q_insert_s2:        check_insert(2, []);
    c12q_insert_s3:        check_insert(3, []);
    c12q_insert_s3_h1:     check_insert(3, [1]);
    c12t_insert_s2_h0:     check_insert(2, [0]);
    c12t_insert_s2_h1:     check_insert(2, [1]);
    c12t_insert_s3_h0:     check_insert(3, [0]);
    c12t_insert_s3_h2:     check_insert(3, [2]);
    c12t_insert_s3_h01:    check_insert(3, [0, 1]);
    c12t_insert_s3_h10:    check_insert(3, [1, 0]);
    c12t_insert_s3_h02:    check_insert(3, [0, 2]);
    c12t_insert_s3_h20:    check_insert(3, [2, 0]);
    c12t_insert_s3_h12:    check_insert(3, [1, 2]);
    c12t_insert_s3_h21:    check_insert(3, [2, 1]);
    c12t_insert_s4:        check_insert(4, []);
    c12t_insert_s4_h1:     check_insert(4, [1]);
    c12t_insert_s4_h2:     check_insert(4, [2]);

    c12q_remove_s0:        check_remove(0, []);
    c12q_remove_s1:        check_remove(1, []);
    c12q_remove_s2:        check_remove(2, []);
    c12q_remove_s3:        check_remove(3, []);
    c12q_remove_s3_h1:     check_remove(3, [1]);
    c12t_remove_s2_h0:     check_remove(2, [0]);
    c12t_remove_s3_h0:     check_remove(3, [0]);
    c12t_remove_s3_h2:     check_remove(3, [2]);
    c12t_remove_s3_h02:    check_remove(3, [0, 2]);
    c12t_remove_s4:        check_remove(4, []);
    c12t_remove_s4_h1:     check_remove(4, [1]);

    c12q_update_s0:        check_update_status(0, []);
    c12q_update_s1:        check_update_status(1, []);
    c12q_update_s2:        check_update_status(2, []);
    c12q_update_s3:        check_update_status(3, []);
    c12q_update_s3_h1:     check_update_status(3, [1]);
    c12t_update_s3_h0:     check_update_status(3, [0]);
    c12t_update_s3_h2:     check_update_status(3, [2]);
    c12t_update_s4:        check_update_status(4, []);
    c12t_update_s4_h2:     check_update_status(4, [2]);

    c12q_setcur_s0:        check_set_current_job(0, []);
    c12q_setcur_s2:        check_set_current_job(2, []);
    c12q_setcur_s3:        check_set_current_job(3, []);
    c12q_setcur_s3_h1:     check_set_current_job(3, [1]);
    c12t_setcur_s1:        check_set_current_job(1, []);
    c12t_setcur_s4:        check_set_current_job(4, []);

    c12q_extract_s2:       check_extract_if(2, []);
    c12q_extract_s3:       check_extract_if(3, []);
    c12t_extract_s3_h1:    check_extract_if(3, [1]);
    c12t_extract_s4:       check_extract_if(4, []);

    c12q_observe_s0:       check_observers(0, []);
    c12q_observe_s3:       check_observers(3, []);
    c12q_observe_s3_h1:    check_observers(3, [1]);
    c12t_observe_s4:       check_observers(4, []);

    c12x_control_insert_s2: control_insert_without_pid_precondition(2, []);
}
