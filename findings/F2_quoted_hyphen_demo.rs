use yash_fnmatch::{Pattern, with_escape};
#[test]
fn quoted_hyphen_in_bracket_is_a_member_not_a_range_operator() {
    let p = Pattern::parse(with_escape(r"[a\-z]")).unwrap();
    assert!(p.is_match("a"));
    assert!(p.is_match("-"));
    assert!(p.is_match("z"));
    assert!(!p.is_match("b"), "[a\\-z] must not match b");
    // an unquoted hyphen still forms a range, also with a quoted hyphen as an end point
    let q = Pattern::parse(with_escape(r"[+-\-]")).unwrap();
    assert!(q.is_match(","));
    assert!(q.is_match("-"));
    let r = Pattern::parse(with_escape(r"[a-c]")).unwrap();
    assert!(r.is_match("b"));
}
