// ---------------------------------------------------------------------------
// Prelude of unit trap, part 2: the trap table `TrapSet` (a map from conditions to records).
// The real field is a BTreeMap; the unit is checked with std's HashMap under the same name (vstd
// specifies HashMap's entry API; only `entry`, `get` and `get_mut` are used and they mean the same
// on both maps).  ASSUMED: this substitution.
// ---------------------------------------------------------------------------

impl vstd::std_specs::cmp::PartialEqSpecImpl for signal::Number {
    open spec fn obeys_eq_spec() -> bool { true }
    open spec fn eq_spec(&self, other: &signal::Number) -> bool { *self == *other }
}

/// ASSUMED: the derived `Hash`/`Eq` of `Condition` form a hash-map key model
pub broadcast axiom fn axiom_condition_key_model()
    ensures #[trigger] vstd::std_specs::hash::obeys_key_model::<Condition>();

/// `kk` is the owned key that the borrowed form `k` designates
pub uninterp spec fn key_borrows<K, Q: ?Sized>(kk: K, k: &Q) -> bool;
pub broadcast axiom fn axiom_key_borrows_same<K>(kk: K, k: &K)
    ensures #[trigger] key_borrows::<K, K>(kk, k) <==> kk == *k;

/// ASSUMED contract of `get_mut`: a mutable reference to the value of the designated key; when the reference
/// expires the map holds its final value under the same key and nothing else has changed.
pub assume_specification<'a, K, V, S, A, Q>[ std::collections::HashMap::<K, V, S, A>::get_mut ](m: &'a mut std::collections::HashMap<K, V, S, A>, k: &Q) -> (r: Option<&'a mut V>)
    where
        A: std::alloc::Allocator,
        K: std::cmp::Eq + std::hash::Hash + std::borrow::Borrow<Q>,
        Q: std::marker::MetaSized + std::hash::Hash + std::cmp::Eq + ?Sized,
        S: std::hash::BuildHasher,
    ensures
        vstd::std_specs::hash::obeys_key_model::<K>() && vstd::std_specs::hash::builds_valid_hashers::<S>() ==> match r {
            Some(v) => exists|kk: K| #![trigger key_borrows(kk, k)] key_borrows(kk, k) && old(m)@.contains_key(kk) && *v == old(m)@[kk]
                && final(m)@ == old(m)@.insert(kk, *final(v)),
            None => (forall|kk: K| #[trigger] old(m)@.contains_key(kk) ==> !key_borrows(kk, k)) && final(m)@ == old(m)@,
        };
