// ---------------------------------------------------------------------------
// Prelude of unit split: field splitting (XCU 2.6.5) as a reference automaton.
// ---------------------------------------------------------------------------

/// The separator set is opaque here (its membership tests are `str::contains`, outside Verus's
/// string support): membership in IFS and in its non-white-space part are uninterpreted.
pub uninterp spec fn in_ifs(ifs: &Ifs, c: char) -> bool;
pub uninterp spec fn in_ifs_non_whitespace(ifs: &Ifs, c: char) -> bool;

/// XCU 2.6.5: IFS white space vs. other IFS characters vs. everything else.
pub open spec fn ifs_class(ifs: &Ifs, c: char) -> Class {
    if in_ifs(ifs, c) {
        if in_ifs_non_whitespace(ifs, c) { Class::IfsNonWhitespace } else { Class::IfsWhitespace }
    } else {
        Class::NonIfs
    }
}

/// XCU 2.6.5: only the results of (unquoted) expansions are split.
pub open spec fn class_of(ifs: &Ifs, c: AttrChar) -> Class {
    if c.is_quoted || c.is_quoting || c.origin != Origin::SoftExpansion { Class::NonIfs } else { ifs_class(ifs, c.value) }
}

/// Reference splitter, one input position at a time (XCU 2.6.5, item 3):
///   - IFS white space at the beginning and end of the input is ignored;
///   - any character of IFS that is not IFS white space, along with any adjacent IFS white space,
///     delimits a field;  non-zero-length IFS white space delimits a field;
/// which gives three situations: inside a field (started at `start`), after a delimiter that
/// consisted of white space only, after a delimiter that contained a non-white-space separator
/// (or at the very beginning).  `None` as class means end of input.
pub enum RefState { Mid { start: int }, AfterWs, AfterSep, Done }

pub open spec fn ref_step(st: RefState, idx: int, class: Option<Class>) -> (RefState, Option<(int, int)>) {
    match st {
        RefState::Done => (RefState::Done, None),
        RefState::Mid { start } => match class {
            // a separator or the end of input ends the field that started at `start`
            Some(Class::IfsNonWhitespace) => (RefState::AfterSep, Some((start, idx))),
            Some(Class::IfsWhitespace) => (RefState::AfterWs, Some((start, idx))),
            // end of input ends the last field; the splitter then sees the end of input once more and stops
            None => (RefState::AfterSep, Some((start, idx))),
            Some(Class::NonIfs) => (RefState::Mid { start }, None),
        },
        RefState::AfterWs => match class {
            // the first non-white-space separator after white space belongs to the same delimiter
            Some(Class::IfsNonWhitespace) => (RefState::AfterSep, None),
            Some(Class::IfsWhitespace) => (RefState::AfterWs, None),
            Some(Class::NonIfs) => (RefState::Mid { start: idx }, None),
            None => (RefState::Done, None),   // trailing white space is ignored
        },
        RefState::AfterSep => match class {
            // a second non-white-space separator delimits an empty field
            Some(Class::IfsNonWhitespace) => (RefState::AfterSep, Some((idx, idx))),
            Some(Class::IfsWhitespace) => (RefState::AfterSep, None),
            Some(Class::NonIfs) => (RefState::Mid { start: idx }, None),
            None => (RefState::Done, None),   // no empty field after a final separator
        },
    }
}

/// Abstraction of the implementation's state.
pub open spec fn abs_state(s: Option<State>) -> RefState {
    match s {
        None => RefState::Done,
        Some(State::Midfield { start_index }) => RefState::Mid { start: start_index as int },
        Some(State::AfterIfsWhitespace) => RefState::AfterWs,
        Some(State::AfterIfsNonWhitespace) => RefState::AfterSep,
    }
}

/// Next field produced by the reference splitter from state `st` at input position `idx`,
/// with `rem` the characters not yet consumed: (field, state after, characters consumed).
pub open spec fn ref_next(ifs: &Ifs, st: RefState, idx: int, rem: Seq<AttrChar>) -> (Option<(int, int)>, RefState, int)
    decreases rem.len() + (if st is Done { 0int } else { 1int })
{
    if st is Done {
        (None, RefState::Done, 0)
    } else {
        let class = if rem.len() > 0 { Some(class_of(ifs, rem[0])) } else { None };
        let (st2, field) = ref_step(st, idx, class);
        let used: int = if rem.len() > 0 { 1 } else { 0 };
        if field is Some {
            (field, st2, used)
        } else if rem.len() == 0 {
            (None, st2, 0)
        } else {
            let (f, s3, n) = ref_next(ifs, st2, idx + 1, rem.drop_first());
            (f, s3, n + 1)
        }
    }
}

// derived PartialEq (assumed structural)
impl vstd::std_specs::cmp::PartialEqSpecImpl for Origin {
    open spec fn obeys_eq_spec() -> bool { true }
    open spec fn eq_spec(&self, other: &Origin) -> bool { *self == *other }
}
