//! Kani check of `Display for QuotedValue` (property C07: the printers of `typeset -p`, `set`, `export -p` write
//! variable values through it), injected as a child module of yash-env/src/variable/value.rs.
//! An array is written as `(` items quoted one by one, separated by one space `)`; a scalar as its quoted form.
//! Literal expectations (the quoted form of each item is the one checked on the real quoter by unit k/quote).
//! Bounded: the five concrete values below.
#![allow(dead_code, unused_imports)]
use super::*;
use std::fmt::Write as _;

struct OutBuf { bytes: [u8; 24], len: usize }
impl std::fmt::Write for OutBuf {
    fn write_str(&mut self, s: &str) -> std::fmt::Result {
        let b = s.as_bytes();
        let mut i = 0;
        while i < b.len() {
            if self.len >= 24 { return Err(std::fmt::Error); }
            self.bytes[self.len] = b[i];
            self.len += 1;
            i += 1;
        }
        Ok(())
    }
}

fn check(value: &Value, expected: &[u8]) {
    let mut out = OutBuf { bytes: [0; 24], len: 0 };
    let r = write!(out, "{}", value.quote());
    assert!(r.is_ok());
    assert!(out.len == expected.len(), "length of the printed value");
    let mut i = 0;
    while i < expected.len() {
        assert!(out.bytes[i] == expected[i], "the printed value, byte by byte");
        i += 1;
    }
}

#[kani::proof]
#[kani::unwind(26)]
fn c07q_value_scalar_with_space() {
    let v = Value::Scalar(String::from("a b"));
    check(&v, b"'a b'");
    std::mem::forget(v);
}

#[kani::proof]
#[kani::unwind(26)]
fn c07q_value_empty_array() {
    let v = Value::Array(Vec::new());
    check(&v, b"()");
    std::mem::forget(v);
}

#[kani::proof]
#[kani::unwind(26)]
fn c07q_value_array_of_two() {
    let v = Value::Array(vec![String::from("a"), String::from("")]);
    check(&v, b"(a '')");
    std::mem::forget(v);
}

#[kani::proof]
#[kani::unwind(26)]
fn c07t_value_array_with_quote_and_space() {
    let v = Value::Array(vec![String::from("'"), String::from("x y")]);
    check(&v, b"(\"'\" 'x y')");
    std::mem::forget(v);
}

/// Must FAIL.
#[kani::proof]
#[kani::unwind(26)]
fn c07x_control_array_without_parentheses() {
    let v = Value::Array(vec![String::from("a")]);
    check(&v, b"a");
    std::mem::forget(v);
}

// native replay of a Kani counterexample (bin/vcheck replay): the generated test is included here
#[cfg(verif_playback)]
include!("/verif/work/k/playback/qvalue_harness.rs");
