//! Kani harnesses for the job-table step of the wait built-in (yash-builtin/src/wait/status.rs job_status), injected
//! as a child module of that file.  Kernel of property C13: "wait ... report each child's true exit status and
//! identity (... 127 for an unknown pid); every child is reaped exactly once".  Bounded stand-in: job tables holding
//! one job (every state, owned or disowned, job control on or off: all symbolic) or none; the test is applied twice.
#![allow(dead_code, unused_imports)]
use super::*;
use std::num::NonZero;
use yash_env::job::{Job, Pid};
use yash_env::option::State::{Off, On};
use yash_env::signal;

fn any_signal() -> signal::Number {
    let raw: i32 = kani::any();
    kani::assume(raw > 0 && raw < 65);
    signal::Number::from_raw_unchecked(NonZero::new(raw).unwrap())
}
fn any_result() -> ProcessResult {
    let k: u8 = kani::any();
    match k % 3 {
        0 => ProcessResult::Stopped(any_signal()),
        1 => ProcessResult::Exited(ExitStatus(kani::any())),
        _ => ProcessResult::Signaled { signal: any_signal(), core_dump: kani::any() },
    }
}
fn any_state() -> ProcessState {
    if kani::any() { ProcessState::Running } else { ProcessState::Halted(any_result()) }
}

/// what `wait %job` answers for a child in this state, written from XCU wait / the documentation of job_status
fn expected(state: ProcessState, is_owned: bool, job_control: bool) -> (Option<ExitStatus>, bool) {
    // (Some(status) = wait returns it / None = keep waiting, removed from the table)
    if !is_owned {
        return (Some(ExitStatus(127)), true);
    }
    match state {
        ProcessState::Running => (None, false),
        ProcessState::Halted(ProcessResult::Exited(s)) => (Some(s), true),
        ProcessState::Halted(ProcessResult::Signaled { signal, .. }) => (Some(ExitStatus(signal.as_raw() + 384)), true),
        ProcessState::Halted(ProcessResult::Stopped(signal)) => {
            if job_control { (Some(ExitStatus(signal.as_raw() + 384)), false) } else { (None, false) }
        }
    }
}

#[kani::proof]
#[kani::unwind(4)]
fn c13q_wait_status_of_one_job() {
    let mut jobs = JobList::default();
    let mut job = Job::new(Pid(kani::any()));
    let state = any_state();
    let is_owned: bool = kani::any();
    job.state = state;
    job.is_owned = is_owned;
    job.job_controlled = kani::any();
    let index = jobs.insert(job);
    let job_control: bool = kani::any();
    let mut test = job_status(index, if job_control { On } else { Off });
    let r = test(&mut jobs);
    let (want, removed) = expected(state, is_owned, job_control);
    match want {
        Some(s) => assert!(r == ControlFlow::Break(s), "wait reports the child's true exit status (127 for a job that is not the shell's)"),
        None => assert!(r == ControlFlow::Continue(()), "a child that has not finished is waited for"),
    }
    assert!(jobs.get(index).is_none() == removed, "a finished child is reaped from the table, any other stays");
    // exactly once: asking again for a reaped child is asking for an unknown one
    let r2 = test(&mut jobs);
    if removed {
        assert!(r2 == ControlFlow::Break(ExitStatus(127)), "a reaped child is unknown afterwards: 127");
    } else {
        assert!(r2 == r, "nothing changes by asking again");
    }
    std::mem::forget(jobs);
}

#[kani::proof]
#[kani::unwind(4)]
fn c13q_wait_status_of_unknown_job() {
    let mut jobs = JobList::default();
    let index: usize = kani::any();
    let job_control: bool = kani::any();
    let r = job_status(index, if job_control { On } else { Off })(&mut jobs);
    assert!(r == ControlFlow::Break(ExitStatus(127)), "an unknown job: 127");
    assert!(jobs.len() == 0, "nothing is invented");
    std::mem::forget(jobs);
}


/// `wait` without operands: it goes on waiting while ANY job of the table is still running - wherever that job sits in
/// the table (the table is sparse: job numbers of removed jobs leave gaps)
#[kani::proof]
#[kani::unwind(5)]
fn c13t_wait_all_with_gap_below_running_job() {
    let mut jobs = JobList::default();
    let first = jobs.insert(Job::new(Pid(10)));
    let second = jobs.insert(Job::new(Pid(11)));
    jobs.remove(first);
    let job_control: bool = kani::any();
    let r = any_job_is_running(if job_control { On } else { Off })(&mut jobs);
    assert!(r == ControlFlow::Continue(()), "a child is still running: wait keeps waiting, whatever gaps the table has");
    assert!(jobs.get(second).is_some(), "the running child stays in the table");
    std::mem::forget(jobs);
}

#[kani::proof]
#[kani::unwind(5)]
fn c13q_wait_all_finished_or_none() {
    let mut jobs = JobList::default();
    let job_control: bool = kani::any();
    let r = any_job_is_running(if job_control { On } else { Off })(&mut jobs);
    assert!(r == ControlFlow::Break(ExitStatus(0)), "no child at all: wait returns 0");
    let mut job = Job::new(Pid(12));
    job.state = ProcessState::Halted(ProcessResult::Exited(ExitStatus(kani::any())));
    let index = jobs.insert(job);
    let r = any_job_is_running(if job_control { On } else { Off })(&mut jobs);
    assert!(r == ControlFlow::Break(ExitStatus(0)), "every child has finished: wait returns 0");
    assert!(jobs.get(index).is_none(), "and the finished child has been reaped");
    std::mem::forget(jobs);
}

/// negative control: must be refuted (a running child is not reported as finished)
#[kani::proof]
#[kani::unwind(4)]
fn c13x_control_running_job_is_finished() {
    let mut jobs = JobList::default();
    let index = jobs.insert(Job::new(Pid(7)));
    let r = job_status(index, Off)(&mut jobs);
    assert!(r != ControlFlow::Continue(()), "control: a running child is reported as finished (false)");
    std::mem::forget(jobs);
}

// native replay of a Kani counterexample (bin/vcheck replay): the generated test is included here
#[cfg(verif_playback)]
include!("/verif/work/k/playback/waitstatus_harness.rs");
