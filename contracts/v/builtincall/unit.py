# Unit builtincall: executing a built-in utility (kernel shared by C02, C09, C10 and C16).
BI = 'yash-semantics/src/command/simple_command/builtin.rs'
SEM = 'yash-env/src/semantics.rs'
MOD_HEAD = '''    use vstd::prelude::*;
    use std::rc::Rc;
    use std::ops::ControlFlow::{self, Break, Continue};
'''
INTERRUPTIBLE = '''let mut caught = Vec::new();
        let system = env.system.clone();
        let result = {
            let builtin_fut = (builtin.execute)(env, fields);
            let sigint_fut = pin!(async {
                loop {
                    let signals = system.wait_for_signals().await;
                    caught.extend(signals.iter().copied());
                    if signals.contains(&S::SIGINT) {
                        return;
                    }
                }
            });
            match select(builtin_fut, sigint_fut).await {
                SelectResult::Left((result, _sigint_fut)) => Some(result),
                SelectResult::Right(((), _builtin_fut)) => None,
            }
        };

        for signal in caught {
            env.traps.catch_signal(signal);
        }'''
RC = 'final(env).verif_rcalls@'
AC = 'final(env).verif_acalls@'
BR = 'final(env).verif_bruns@'
SPECIAL = '(builtin.verif_type is Special)'
REDIRS_OK = RC + '.last().ok'
ASSIGNED = '(' + AC + '.len() == old(env).verif_acalls@.len() + 1)'
RAN = '(' + BR + '.len() == old(env).verif_bruns@.len() + 1)'
UNIT = {
    'name': 'builtincall',
    'property': 'C16',
    'rlimit': 100,
    'verus_args': ['--edition=2024'],
    'controls': 'auto',
    'vacuity_floor': 1,
    'rename_idents': {'r#type': 'verif_type'},
    'items': [
        ('@raw', 'pub mod bc {\n' + MOD_HEAD),
        ('yash-env/src/builtin.rs', ['enum Type']),
        ('@file', 'prelude.rs'),
        (SEM, ['impl ExitStatus#1', 'const SUCCESS']),
        (BI, ['fn execute_builtin'], {'ret': 'r', 'rewrites': ['strip-async'],
            'token_rewrites': [
                ('use yash_env :: builtin :: Type :: * ;', 'use crate::bc::Type::*;'),
                ('let env = & mut RedirGuard :: new ( env ) ;', 'let mut env = RedirGuard::new(env);'),
                ('xtrace . as_mut ( )', 'verif_as_mut(&mut xtrace)', '*'),
                ('e . handle ( env )', 'e.handle(env.env)'),
                # rule labeled-block-value-to-else: `'l: { A; if c { p; break 'l v; } B; tail }` = `{ A; if c { p; v } else { B; tail } }`
                # (an early exit of a block with a value is the else-nesting of the rest; Verus has no labeled blocks)
                ("let result = 'result : {", "let result: BuiltinResult = {"),
                # the two alternatives of the either crate as two constructors of one guard type (see the prelude)
                ('Either :: Left ( & mut * env )', 'verif_same_context(env.env)'),
                ('Either :: Right ( env . push_context ( Context :: Volatile ) )', 'env.env.push_context(Context::Volatile)'),
                ('let env = match & mut env { Either :: Left ( e ) => & mut * * * e , Either :: Right ( e ) => & mut * * e , } ;', 'let env = &mut *env.env;'),
                ('print_error ( env , format ! ( "cannot execute built-in utility {:?}" , name . value ) . into ( ) , error . to_string ( ) . into ( ) , & name . origin , )', 'verif_report_unusable(env, &name, &error)'),
                ("break 'result error . exit_status ( ) . into ( ) ; }", "error.exit_status().into() } else {"),
                ('let env = & mut env . push_frame ( FrameBuiltin { name , is_special } . into ( ) ) ;', 'let mut verif_fg = env.push_frame(FrameBuiltin { name, is_special }); let env = &mut *verif_fg.env;'),
                ("if ! interruptible { break 'result ( builtin . execute ) ( env , fields ) . await ; }", "if !interruptible { verif_run_builtin(&builtin, env, fields) } else {"),
                (INTERRUPTIBLE, 'let result = verif_run_interruptible(&builtin, env, fields);'),
                ('match result { Some ( result ) => result , None => return Break ( Divert :: Interrupt ( Some ( ExitStatus :: from ( S :: SIGINT ) ) ) ) , } } ;',
                 "match result { Some(result) => result, None => return Break(Divert::Interrupt(Some(ExitStatus::from(S::SIGINT)))), } } } };"),
                ('env . exit_status = result . exit_status ( ) ;', 'env.env.exit_status = result.exit_status();'),
            ],
            'requires': ['fields@.len() >= 1', '!old(env).verif_keep_redirs@'],
            'ensures': [
                # C09: the redirections of the command are performed, once, all of them, first
                RC + ' == old(env).verif_rcalls@.push(RCall { ids: redir_ids(redirs@), ok: ' + REDIRS_OK + ' })',
                # the caller's contexts and frames are back afterwards
                'final(env).verif_contexts@ =~= old(env).verif_contexts@', 'final(env).verif_frames@ == old(env).verif_frames@',
                # C10: a failed redirection: reported once, nothing else happens; a SPECIAL built-in interrupts the shell, any
                # other lets it go on (unless the handler itself diverted)
                '!' + REDIRS_OK + ' ==> final(env).verif_handled@ == old(env).verif_handled@ + 1 && ' + AC + ' == old(env).verif_acalls@ && ' + BR + ' == old(env).verif_bruns@ && final(env).verif_redirs@ == old(env).verif_redirs@'
                ' && (r is Continue ==> !' + SPECIAL + ') && (' + SPECIAL + ' ==> r is Break)',
                REDIRS_OK + ' ==> final(env).verif_handled@ == old(env).verif_handled@',
                # C16: the assignments are made once, all of them, with the redirections in effect: for a SPECIAL built-in in
                # the caller's own contexts and not exported (they stay), otherwise exported in a volatile context on top (gone
                # afterwards, see above)
                REDIRS_OK + ' ==> ' + ASSIGNED + ' && ' + AC + '.last().ids == assign_ids(assigns@) && ' + AC + '.last().redirs == old(env).verif_redirs@ + redir_ids(redirs@)'
                ' && ' + AC + '.last().export == !' + SPECIAL +
                ' && ' + AC + '.last().contexts == (if ' + SPECIAL + ' { old(env).verif_contexts@ } else { old(env).verif_contexts@.push(Context::Volatile) })',
                REDIRS_OK + ' && !' + AC + '.last().ok ==> r is Break && ' + BR + ' == old(env).verif_bruns@',
                # C02: the built-in runs at most once, only after both; then in a Builtin frame saying whether it is special,
                # with the redirections in effect, the contexts of the assignments, and the fields after the command name
                BR + '.len() <= old(env).verif_bruns@.len() + 1',
                RAN + ' ==> ' + REDIRS_OK + ' && ' + ASSIGNED + ' && ' + AC + '.last().ok && ' + BR + '.last().builtin == builtin.verif_id'
                ' && ' + BR + '.last().fields == field_ids(fields@).subrange(1, fields@.len() as int)'
                ' && ' + BR + '.last().redirs == old(env).verif_redirs@ + redir_ids(redirs@) && ' + BR + '.last().contexts == ' + AC + '.last().contexts'
                ' && ' + BR + '.last().frames == old(env).verif_frames@.push(BFrame { is_special: ' + SPECIAL + ', name_id: fields@[0].verif_id })',
                # an unusable built-in: one report, nothing runs
                REDIRS_OK + ' && ' + ASSIGNED + ' && ' + AC + '.last().ok && !' + RAN + ' ==> final(env).verif_not_found@ == old(env).verif_not_found@ + 1 && r is Continue',
                RAN + ' ==> final(env).verif_not_found@ == old(env).verif_not_found@',
                # `$?` and the divert are those of the built-in's result - unless it was interrupted - and the redirections stay in
                # effect afterwards exactly when the built-in asked for that (exec)
                RAN + ' && !(r matches ControlFlow::Break(Divert::Interrupt(Some(_)))) ==> final(env).exit_status == ' + BR + '.last().result.verif_exit_status && r == ' + BR + '.last().result.verif_divert'
                ' && final(env).verif_redirs@ == (if ' + BR + '.last().result.verif_retain { old(env).verif_redirs@ + redir_ids(redirs@) } else { old(env).verif_redirs@ })',
                '!' + RAN + ' ==> final(env).verif_redirs@ == old(env).verif_redirs@',
            ]}),
        ('@raw', '}\n'),
    ],
}
