# Unit sigcatch: where reported signals reach the trap table (kernel of C11).
LIB = 'yash-env/src/lib.rs'
IMPL = 'impl<S> Env<S>#1'
MOD_HEAD = '''    use vstd::prelude::*;
'''
C0 = 'old(self).traps.caught@'
C1 = 'final(self).traps.caught@'
R0 = 'old(self).system.reported@'
R1 = 'final(self).system.reported@'
UNIT = {
    'name': 'sigcatch',
    'property': 'C11',
    'rlimit': 60,
    'verus_args': ['--edition=2024'],
    'vacuity_floor': 2,
    'controls': {LIB + '::<S> Env<S>#1::wait_for_signal': {'ensures': {'append': 'false'}}},
    'control_expect': ['wait_for_signal'],
    'items': [
        ('@raw', 'pub mod sgc {\n' + MOD_HEAD),
        ('@file', 'prelude.rs'),
        (LIB, [IMPL, 'fn wait_for_signals'], {'ret': 'r', 'rewrites': ['strip-async'],
            'attrs': ['#[verifier::loop_isolation(false)]'],
            'sig_token_rewrites': [('S : WaitForSignals ,', '')],
            'token_rewrites': [('for signal in result . iter ( ) . copied ( )', 'for verif_sig in verif_it: result.verif_vec()')],
            'ensures': [
                # one batch is taken from the system and handed on unchanged; every signal of it reaches the trap table, once, in order
                R1 + ' == ' + R0 + ' + r.verif_v@ && final(self).system.last@ == r.verif_v@ && final(self).system.batches@ == old(self).system.batches@ + 1', C1 + ' =~= ' + C0 + ' + r.verif_v@',
            ],
            'loops': {0: {'body_start': 'let signal = *verif_sig;', 'invariant': ['self.traps.caught@ =~= ' + C0 + ' + result.verif_v@.take(verif_it.index() as int)', 'self.system.reported@ == ' + R0 + ' + result.verif_v@', 'self.system.last@ == result.verif_v@', 'self.system.batches@ == old(self).system.batches@ + 1']}},
            }),
        (LIB, [IMPL, 'fn wait_for_signal'], {'rewrites': ['strip-async'],
            'attrs': ['#[verifier::exec_allows_no_decreases_clause]'],
            'sig_token_rewrites': [('S : WaitForSignals ,', '')],
            'token_rewrites': [('while ! self . wait_for_signals ( ) . await . contains ( & signal ) { }',
                'while !self.wait_for_signals().contains(&signal)\n            invariant ' + R0 + '.len() <= self.system.reported@.len(), self.traps.caught@ =~= ' + C0 + ' + self.system.reported@.subrange(' + R0 + '.len() as int, self.system.reported@.len() as int), self.system.batches@ >= old(self).system.batches@\n        { }')],
            'ensures': [
                # it returns only after a batch that contains the signal; every signal of every batch taken meanwhile reached the trap table
                'final(self).system.batches@ > old(self).system.batches@ && final(self).system.last@.contains(signal)',
                C1 + ' =~= ' + C0 + ' + ' + R1 + '.subrange(' + R0 + '.len() as int, ' + R1 + '.len() as int)',
            ]}),
        ('@raw', '}\n'),
    ],
}
