# Unit globpush: SearchEnv::push_component (kernel of C05).
GL = 'yash-semantics/src/expansion/glob.rs'
MOD_HEAD = '''    use vstd::prelude::*;
    use std::ops::ControlFlow::{self, Break, Continue};
'''
L0 = 'old(self).env.log@'
L1 = 'final(self).env.log@'
PATH = '(old(self).prefix@ + push.what())'
UNIT = {
    'name': 'globpush',
    'property': 'C05',
    'rlimit': 60,
    'verus_args': ['--edition=2024'],
    'vacuity_floor': 1,
    'controls': {GL + "::<S: Fstat + Open + Select + Signals + WaitForSignals> SearchEnv<'_, S>::push_component": {'ensures': {'append': 'false'}}},
    'control_expect': ['push_component'],
    'items': [
        ('@raw', 'pub mod gp {\n' + MOD_HEAD),
        ('@file', 'prelude.rs'),
        (GL, ["impl<S: Fstat + Open + Select + Signals + WaitForSignals> SearchEnv<'_, S>", 'fn push_component'], {'ret': 'r',
            'wrapper': "impl<'e, S> SearchEnv<'e, S>",
            'sig_token_rewrites': [('F : FnOnce ( & mut String ) ,', 'F: Pusher,')],
            'token_rewrites': [
                ('push ( & mut self . prefix ) ;', 'push.call(&mut self.prefix);'),
                ('self . prefix . clone ( )', 'verif_clone_string(&self.prefix)'),
            ],
            'ghost_before': [('self . prefix . truncate ( old_prefix_len ) ;', 'proof { assert(old(self).prefix@.is_prefix_of(self.prefix@)); }')],
            'ensures': [
                # the path being built is afterwards what it was
                'final(self).prefix@ == old(self).prefix@',
                # the last component: the path - what was there plus the component - is delivered exactly when its existence is known
                # or a look at the file system finds it; nothing else is delivered, nothing is searched
                'suffix is None && file_exists ==> ' + L1 + ' == ' + L0 + ' && final(self).results@.len() == old(self).results@.len() + 1 && final(self).results@.last().value@ == ' + PATH,
                'suffix is None && !file_exists ==> ' + L1 + ' == ' + L0 + '.push(Ev::Stat { path: ' + PATH + ', found: final(self).results@.len() == old(self).results@.len() + 1 }) '
                '&& (final(self).results@.len() == old(self).results@.len() || (final(self).results@.len() == old(self).results@.len() + 1 && final(self).results@.last().value@ == ' + PATH + '))',
                'suffix is None ==> forall|k: int| 0 <= k < old(self).results@.len() ==> #[trigger] final(self).results@[k] == old(self).results@[k]',
                # components left: the walk goes on below `path/`, for exactly the rest of the field
                'suffix matches Some(rest) ==> ' + L1 + '.len() > ' + L0 + '.len() && ' + L1 + '[' + L0 + '.len() as int] == (Ev::Search { prefix: ' + PATH + '.push(\'/\'), suffix: rest@ })',
            ]}),
        ('@raw', '}\n'),
    ],
}
