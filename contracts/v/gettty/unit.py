# Unit gettty: the descriptor the shell keeps on its terminal (kernel of C09).
LIB = 'yash-env/src/lib.rs'
MOD_HEAD = '''    use vstd::prelude::*;
'''
L0 = 'old(self).system.log@'
L1 = 'final(self).system.log@'
UNIT = {
    'name': 'gettty',
    'property': 'C09',
    'rlimit': 60,
    'verus_args': ['--edition=2024'],
    'vacuity_floor': 1,
    'controls': {LIB + '::<S> Env<S>#1::get_tty': {'ensures': {'append': 'false'}}},
    'control_expect': ['get_tty'],
    'items': [
        ('@raw', 'pub mod gt {\n' + MOD_HEAD),
        ('@file', 'prelude.rs'),
        (LIB, ['impl<S> Env<S>#1', 'fn get_tty'], {'ret': 'r', 'rewrites': ['strip-async'],
            'sig_token_rewrites': [('S : Open + Dup + Close ,', '')],
            'token_rewrites': [
                ('c"/dev/tty"', 'verif_dev_tty()', 2),
                ('result == Err ( Errno :: EINVAL )', 'verif_is_einval(&result)'),
                ('io :: move_fd_internal ( & self . system , first_fd )', 'io::move_fd_internal(&mut self.system, first_fd)'),
            ],
            'ensures': [
                # a remembered descriptor is handed out again without any system call
                'old(self).tty matches Some(fd) ==> r == Ok::<Fd, Errno>(fd) && ' + L1 + ' == ' + L0 + ' && final(self).tty == old(self).tty',
                # otherwise: /dev/tty is opened with close-on-exec, first without becoming the controlling terminal; exactly one second
                # attempt without that flag when the system rejects it; nothing else is opened
                'old(self).tty is None ==> ' + L1 + '.len() > ' + L0 + '.len() && ' + L1 + '.subrange(0, ' + L0 + '.len() as int) =~= ' + L0
                + ' && (' + L1 + '[' + L0 + '.len() as int] matches Ev::Open { dev_tty, cloexec, noctty, result } && dev_tty && cloexec && noctty)',
                'old(self).tty is None ==> forall|k: int| ' + L0 + '.len() <= k < ' + L1 + '.len() ==> (#[trigger] ' + L1 + '[k] matches Ev::Open { dev_tty, cloexec, noctty, result } ==> dev_tty && cloexec && k <= ' + L0 + '.len() + 1)',
                # the descriptor opened is at once moved to the internal range, and only what that move returned is remembered and handed out
                'old(self).tty is None && r is Ok ==> (' + L1 + '.last() matches Ev::MovedInternal { from, result } && result == r && final(self).tty == Some(r->Ok_0) '
                '&& (' + L1 + '[' + L1 + '.len() - 2] matches Ev::Open { dev_tty, cloexec, noctty, result: opened } && opened == Ok::<Fd, Errno>(from)))',
                'old(self).tty is None && r is Err ==> final(self).tty is None',
                # every successful open is followed by the move (which closes the original on every path): none is left behind
                'old(self).tty is None ==> forall|k: int| ' + L0 + '.len() <= k < ' + L1 + '.len() ==> ((#[trigger] ' + L1 + '[k] matches Ev::Open { dev_tty, cloexec, noctty, result } && result is Ok) ==> k + 1 < ' + L1 + '.len() && ' + L1 + '[k + 1] is MovedInternal)',
            ]}),
        ('@raw', '}\n'),
    ],
}
