# Unit pipelinerun: running the commands of a pipeline (kernel shared by C13, C02 and C10).
PL = 'yash-semantics/src/command/pipeline.rs'
SEM = 'yash-env/src/semantics.rs'
OPT = 'yash-env/src/option.rs'
MOD_HEAD = '''    use vstd::prelude::*;
    use std::ops::ControlFlow::{self, Break, Continue};
    use std::ffi::c_int;
    use std::rc::Rc;
'''
M0 = 'old(env).mon@'
M1 = 'final(env).mon@'
NOEXEC = 'ControlFlow::<Divert, ()>::Break(Divert::Interrupt(Some(ExitStatus::NOEXEC)))'
K = '(env.mon@.cmds.len() - verif_m0.cmds.len())'
J = '(env.mon@.waited.len() - verif_m0.waited.len())'
FRAME = 'env.options == verif_e0.options && env.verif_controls_jobs == verif_e0.verif_controls_jobs'
UNIT = {
    'name': 'pipelinerun',
    'property': 'C13',
    'controls': 'auto',
    'rlimit': 120,
    'verus_args': ['--edition=2024'],
    'vacuity_floor': 5,
    'items': [
        ('@raw', 'pub mod semantics { pub type Result<T = ()> = std::ops::ControlFlow<crate::plr::Divert, T>; }\n'),
        ('@raw', 'pub mod plr {\n' + MOD_HEAD + '    pub use crate::semantics::Result;\n'),
        (OPT, ['enum State']),
        ('@raw', 'pub use State::*;\n'),
        (SEM, ['struct ExitStatus']),
        (SEM, ['impl ExitStatus#1', 'const SUCCESS']),
        (SEM, ['impl ExitStatus#1', 'const NOEXEC']),
        (SEM, ['impl ExitStatus#1', 'fn is_successful'], {'ret': 'r', 'ensures': ['r == (self.0 == 0)']}),
        (SEM, ['enum Divert']),
        ('@file', 'prelude.rs'),
        (PL, ['fn shift_or_fail'], {'ret': 'r', 'rewrites': ['strip-async'],
            'token_rewrites': [
                ('let message = format ! ( "cannot connect pipes in the pipeline: {errno}\\n" ) ; env . system . print_error ( & message )', 'verif_print_error(env, &errno)'),
            ],
            'ensures': [
                'final(pipes).verif_gen@ == old(pipes).verif_gen@ + 1', 'final(pipes).verif_has_next@ == has_next',
                M1 + ' == (Mon { wrong: ' + M0 + '.wrong || ' + M0 + '.shifted is Some, shifted: if r is Continue { Some((final(pipes).verif_gen@, has_next)) } else { None }, ..' + M0 + ' })',
                'r is Break ==> r == ' + NOEXEC,
                'final(env).exit_status == old(env).exit_status', 'final(env).options == old(env).options', 'final(env).verif_controls_jobs == old(env).verif_controls_jobs',
            ]}),
        (PL, ['fn pid_or_fail'], {'ret': 'r', 'rewrites': ['strip-async'],
            'token_rewrites': [
                ('debug_assert_eq ! ( job_control , None ) ;', 'assert(job_control is None);'),
                ('env . system . print_error ( & format ! ( "cannot start a subshell in the pipeline: {errno}\\n" ) )', 'verif_print_error(env, &errno)'),
            ],
            'requires': ['start_result matches Ok((pid, jc)) ==> jc is None'],
            'ensures': [
                'match start_result { Ok((pid, jc)) => r == ControlFlow::<Divert, Pid>::Continue(pid), Err(_) => r == ControlFlow::<Divert, Pid>::Break(Divert::Interrupt(Some(ExitStatus::NOEXEC))) }',
                M1 + ' == ' + M0, 'final(env).exit_status == old(env).exit_status', 'final(env).options == old(env).options', 'final(env).verif_controls_jobs == old(env).verif_controls_jobs',
            ]}),
        (PL, ['fn connect_pipe_and_execute_command'], {'ret': 'r', 'rewrites': ['strip-async'],
            'token_rewrites': [
                ('let message = format ! ( "cannot connect pipes in the pipeline: {errno}\\n" ) ; env . system . print_error ( & message )', 'verif_print_error(env, &errno)'),
            ],
            'ensures': [
                # in the child: the pipes are connected first; the command runs once, and only if that worked
                M1 + '.events.len() >= ' + M0 + '.events.len() + 1',
                M1 + '.events[' + M0 + '.events.len() as int] matches Ev::Connected { ok } && ('
                '(ok && ' + M1 + '.events == ' + M0 + '.events.push(Ev::Connected { ok: true }).push(Ev::Ran { id: command.verif_id, result: r }))'
                ' || (!ok && ' + M1 + '.events == ' + M0 + '.events.push(Ev::Connected { ok: false }) && r == ' + NOEXEC + '))',
            ]}),
        (PL, ['fn execute_multi_command_pipeline'], {'ret': 'r', 'rewrites': ['strip-async'],
            'attrs': ['#[verifier::loop_isolation(false)]', '#[verifier::exec_allows_no_decreases_clause]'],
            'entry_ghost': 'let ghost verif_m0 = env.mon@; let ghost verif_e0 = *env; let ghost verif_all = commands@;',
            'token_rewrites': [
                ('commands . iter ( ) . cloned ( )', 'VerifCmdIter::new(commands)'),
                ('Config :: new ( ) . start ( env , async move | env , _job_control | { let result = connect_pipe_and_execute_command ( env , pipes , command ) . await ; env . apply_result ( result ) ; run_exit_trap ( env ) . await ; } )',
                 'verif_start(env, pipes, command)'),
                ('for pid in pids', 'let ghost verif_pids = pids@; let mut verif_rest = pids; while let Some(pid) = verif_next_pid(&mut verif_rest)'),
            ],
            'requires': ['!' + M0 + '.wrong', M0 + '.shifted is None', M0 + '.pids.len() == ' + M0 + '.cmds.len()', M0 + '.has_next.len() == ' + M0 + '.cmds.len()'],
            'ensures': [
                # every call happened in turn: shift / start alternate, each child gets the pipe set as just shifted, and the
                # parent waits only after its last pipe end is closed
                '!' + M1 + '.wrong',
                # all went well: one child per command in order, the k-th with a next pipe iff it is not the last; every child
                # awaited exactly once, in order; none left unreaped; `$?` = the last status / the rightmost failure under pipefail
                'r is Continue ==> multi_post(*old(env), *final(env), commands@)',
                'r is Break ==> r == ' + NOEXEC,
                'final(env).options == old(env).options', 'final(env).verif_controls_jobs == old(env).verif_controls_jobs',
                M1 + '.errexit_consulted == ' + M0 + '.errexit_consulted', M1 + '.single_runs == ' + M0 + '.single_runs', M1 + '.jc_started == ' + M0 + '.jc_started',
            ],
            'loops': {
                0: {'body_start': 'let ghost verif_pb = pids@;',
                    'body_end': 'proof { assert(forall|i: int| 0 <= i < verif_pb.len() ==> pids@[i] == #[trigger] verif_pb[i]); assert(pids@[pids@.len() - 1] == pids@.last()); }',
                    'invariant': [
                    '!env.mon@.wrong', 'env.mon@.shifted is None', FRAME,
                    'env.mon@.cmds.len() >= verif_m0.cmds.len()', K + ' <= verif_all.len()',
                    'commands.rest@ =~= verif_all.subrange(' + K + ', verif_all.len() as int)',
                    'env.mon@.cmds =~= verif_m0.cmds + cmd_ids(verif_all.subrange(0, ' + K + '))',
                    'env.mon@.has_next =~= verif_m0.has_next + Seq::new(' + K + ' as nat, |i: int| i < verif_all.len() - 1)',
                    'env.mon@.pids.len() == verif_m0.pids.len() + ' + K,
                    'pids@ =~= env.mon@.pids.subrange(verif_m0.pids.len() as int, env.mon@.pids.len() as int)',
                    'forall|i: int| 0 <= i < pids@.len() ==> env.mon@.unreaped.contains(#[trigger] pids@[i]) && !verif_m0.unreaped.contains(pids@[i])',
                    'forall|i: int, j: int| 0 <= i < j < pids@.len() ==> pids@[i] != pids@[j]',
                    'forall|p: Pid| #[trigger] env.mon@.unreaped.contains(p) ==> verif_m0.unreaped.contains(p) || (exists|i: int| 0 <= i < pids@.len() && pids@[i] == p)',
                    'forall|p: Pid| #[trigger] verif_m0.unreaped.contains(p) ==> env.mon@.unreaped.contains(p)',
                    'env.mon@.waited == verif_m0.waited',
                    'env.mon@.errexit_consulted == verif_m0.errexit_consulted', 'env.mon@.single_runs == verif_m0.single_runs', 'env.mon@.jc_started == verif_m0.jc_started',
                    'pipes.verif_gen@ >= 0',
                ]},
                1: {'body_start': 'let ghost verif_w_before = env.mon@.waited;',
                    'body_end': 'proof { assert(env.mon@.waited.drop_last() =~= verif_w_before); }',
                    'invariant': [
                    '!env.mon@.wrong', FRAME, 'pipefail == verif_e0.options.verif_pipefail',
                    'env.mon@.shifted matches Some((g, h)) && !h',
                    'verif_pids.len() == verif_all.len()',
                    'env.mon@.cmds =~= verif_m0.cmds + cmd_ids(verif_all)',
                    'env.mon@.has_next =~= verif_m0.has_next + Seq::new(verif_all.len(), |i: int| i < verif_all.len() - 1)',
                    'env.mon@.pids.len() == verif_m0.pids.len() + verif_all.len()',
                    'verif_pids =~= env.mon@.pids.subrange(verif_m0.pids.len() as int, env.mon@.pids.len() as int)',
                    'env.mon@.waited.len() >= verif_m0.waited.len()', J + ' <= verif_pids.len()',
                    'verif_rest@ =~= verif_pids.subrange(' + J + ', verif_pids.len() as int)',
                    'env.mon@.waited.subrange(0, verif_m0.waited.len() as int) == verif_m0.waited',
                    'forall|i: int| 0 <= i < ' + J + ' ==> (#[trigger] env.mon@.waited[verif_m0.waited.len() + i]).0 == verif_pids[i]',
                    'forall|i: int, j: int| 0 <= i < j < verif_pids.len() ==> verif_pids[i] != verif_pids[j]',
                    'forall|i: int| 0 <= i < verif_pids.len() ==> !verif_m0.unreaped.contains(#[trigger] verif_pids[i])',
                    'forall|i: int| ' + J + ' <= i < verif_pids.len() ==> env.mon@.unreaped.contains(#[trigger] verif_pids[i])',
                    'forall|p: Pid| #[trigger] env.mon@.unreaped.contains(p) ==> verif_m0.unreaped.contains(p) || (exists|i: int| ' + J + ' <= i < verif_pids.len() && verif_pids[i] == p)',
                    'forall|p: Pid| #[trigger] verif_m0.unreaped.contains(p) ==> env.mon@.unreaped.contains(p)',
                    'final_exit_status == pipe_status_from(env.mon@.waited, verif_m0.waited.len() as int, pipefail)',
                    'env.mon@.errexit_consulted == verif_m0.errexit_consulted', 'env.mon@.single_runs == verif_m0.single_runs', 'env.mon@.jc_started == verif_m0.jc_started',
                ]},
            }}),
        (PL, ['fn execute_job_controlled_pipeline'], {'ret': 'r', 'rewrites': ['strip-async'],
            'token_rewrites': [
                ('commands . to_vec ( )', 'verif_to_vec(commands)'),
                ('Config :: foreground ( ) . start_and_wait ( env , async move | sub_env , _job_control | { let result = execute_multi_command_pipeline ( sub_env , & commands_2 ) . await ; sub_env . apply_result ( result ) ; run_exit_trap ( sub_env ) . await ; } )',
                 'verif_start_and_wait(env, commands_2)'),
                ('handle_job_status ( env , pid , result , | | to_job_name ( commands ) )', 'verif_handle_job_status(env, pid, result)'),
                ('let message = format ! ( "cannot start a subshell in the pipeline: {errno}\\n" ) ; env . system . print_error ( & message )', 'verif_print_error(env, &errno)'),
            ],
            'requires': [M0 + '.phase is Idle'],
            'ensures': [
                # under job control the whole pipeline runs in ONE child, for exactly these commands
                M1 + '.jc_started == ' + M0 + '.jc_started.push(cmd_ids(commands@))',
                M1 + '.phase is StartFailed ==> r == ' + NOEXEC + ' && final(env).exit_status == old(env).exit_status',
                # its awaited result (of exactly that child) is interpreted once and `$?` is the status it stands for
                '!(' + M1 + '.phase is StartFailed) ==> (' + M1 + '.phase matches Phase::Handled { pid, result, answer } && ' + M1 + '.awaited == Some((pid, result)) && ('
                '(answer matches ControlFlow::Continue(st) && st == status_of(result) && final(env).exit_status == st && r is Continue)'
                ' || (answer matches ControlFlow::Break(d) && r == ControlFlow::<Divert, ()>::Break(d) && final(env).exit_status == old(env).exit_status)))',
                M1 + '.errexit_consulted == ' + M0 + '.errexit_consulted', M1 + '.single_runs == ' + M0 + '.single_runs', M1 + '.cmds == ' + M0 + '.cmds', M1 + '.wrong == ' + M0 + '.wrong',
                'final(env).options == old(env).options', 'final(env).verif_controls_jobs == old(env).verif_controls_jobs',
            ]}),
        (PL, ['fn execute_commands_in_pipeline'], {'ret': 'r', 'rewrites': ['strip-async'],
            'requires': ['!' + M0 + '.wrong', M0 + '.shifted is None', M0 + '.pids.len() == ' + M0 + '.cmds.len()', M0 + '.has_next.len() == ' + M0 + '.cmds.len()', M0 + '.phase is Idle'],
            'ensures': [
                # no command: status 0 ("zero if none")
                'commands@.len() == 0 ==> r is Continue && final(env).exit_status == ExitStatus(0) && ' + M1 + ' == ' + M0,
                # one command: exactly that command, in this shell; its result is the result; errexit is left to it
                'commands@.len() == 1 ==> ' + M1 + '.single_runs == ' + M0 + '.single_runs.push((commands@[0].verif_id, r)) && ' + M1 + '.errexit_consulted == ' + M0 + '.errexit_consulted && ' + M1 + '.cmds == ' + M0 + '.cmds && ' + M1 + '.jc_started == ' + M0 + '.jc_started',
                # two or more: no command runs in this shell; one child per command (or one child for all under job control) ...
                'commands@.len() >= 2 ==> ' + M1 + '.single_runs == ' + M0 + '.single_runs && !' + M1 + '.wrong',
                'commands@.len() >= 2 && r is Continue && !old(env).verif_controls_jobs ==> multi_post(*old(env), *final(env), commands@)',
                'commands@.len() >= 2 && old(env).verif_controls_jobs ==> ' + M1 + '.jc_started == ' + M0 + '.jc_started.push(cmd_ids(commands@)) && ' + M1 + '.cmds == ' + M0 + '.cmds',
                'commands@.len() >= 2 && !old(env).verif_controls_jobs ==> ' + M1 + '.jc_started == ' + M0 + '.jc_started',
                # ... and errexit is consulted exactly once, at the very end, with the pipeline's status; its answer is the result (C10)
                'commands@.len() >= 2 && r is Continue ==> ' + M1 + '.errexit_consulted == ' + M0 + '.errexit_consulted + 1 && ' + M1 + '.errexit_status == Some(final(env).exit_status) && ' + M1 + '.errexit_result == Some(r)',
                'commands@.len() >= 2 && ' + M1 + '.errexit_consulted == ' + M0 + '.errexit_consulted + 1 ==> ' + M1 + '.errexit_result == Some(r) && ' + M1 + '.errexit_status == Some(final(env).exit_status)',
                M1 + '.errexit_consulted <= ' + M0 + '.errexit_consulted + 1',
            ]}),
        ('@raw', '}\n'),
    ],
}
