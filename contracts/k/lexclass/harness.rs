//! Kani contracts for the lexer's character classes (property C07), injected as a child module of
//! yash-syntax/src/parser/lex/op.rs: the two predicates the quoting function has to agree with.
#![allow(dead_code, unused_imports)]
use super::*;
use crate::parser::lex::is_blank;

/// `is_operator_char` over every `char` = the first characters of the POSIX operators and newline.
#[kani::proof]
#[kani::unwind(6)]
fn c07q_operator_chars() {
    let c: char = kani::any();
    let expected = matches!(c, '\n' | '&' | '(' | ')' | ';' | '<' | '>' | '|');
    assert!(is_operator_char(c) == expected, "is_operator_char = { newline & ( ) ; < > | }");
}

/// `is_blank` over every `char` = white space other than newline.
#[kani::proof]
fn c07q_blank_chars() {
    let c: char = kani::any();
    assert!(is_blank(c) == (c != '\n' && c.is_whitespace()), "is_blank = white space but newline");
}

// native replay of a Kani counterexample (bin/vcheck replay): the generated test is included here
#[cfg(verif_playback)]
include!("/verif/work/k/playback/lexclass_harness.rs");
