// ---- specification of the trap table -------------------------------------------------------------
impl TrapSet {
    pub open spec fn tab(&self) -> Map<Condition, GrandState> { self.traps@ }
}
/// C11 for the whole table: for every signal with a record, the installed disposition is the one wanted
pub open spec fn tinv<S: SignalSystem>(t: Map<Condition, GrandState>, system: S) -> bool {
    forall|sig: signal::Number| #[trigger] t.contains_key(Condition::Signal(sig)) ==> system.installed(sig) == t[Condition::Signal(sig)].wanted()
}
/// every record keeps action, origin, pending flag and internal disposition; no parent state is remembered
pub open spec fn parents_cleared(t0: Map<Condition, GrandState>, t1: Map<Condition, GrandState>) -> bool {
    &&& t1.dom() =~= t0.dom()
    &&& forall|c: Condition| #[trigger] t0.contains_key(c) ==> t1[c].cur() == t0[c].cur() && t1[c].internal() == t0[c].internal() && t1[c].parent() is None
}
/// everything but the record of `c` is the same
pub open spec fn same_but(t0: Map<Condition, GrandState>, t1: Map<Condition, GrandState>, c: Condition) -> bool {
    forall|d: Condition| d != c ==> (#[trigger] t1.contains_key(d) <==> t0.contains_key(d)) && (t0.contains_key(d) ==> t1[d] == t0[d])
}
/// no record disappears and every record keeps the user's action, origin, pending flag and parent state
pub open spec fn actions_kept(t0: Map<Condition, GrandState>, t1: Map<Condition, GrandState>) -> bool {
    forall|c: Condition| #[trigger] t0.contains_key(c) ==> t1.contains_key(c) && t1[c].cur() == t0[c].cur() && t1[c].parent() == t0[c].parent()
}
/// if there is a record for `sig`, its internal disposition is `d`
pub open spec fn want_internal(t: Map<Condition, GrandState>, sig: signal::Number, d: Disposition) -> bool {
    t.contains_key(Condition::Signal(sig)) ==> t[Condition::Signal(sig)].internal() == d
}
