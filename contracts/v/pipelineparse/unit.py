# Unit pipelineparse: Parser::pipeline (kernel shared by C02 and C17).
PP = 'yash-syntax/src/parser/pipeline.rs'
MOD_HEAD = '''    use vstd::prelude::*;
    use std::rc::Rc;
'''
M0 = 'old(self).mon@'
M1 = 'final(self).mon@'
CLEAN = '!self.mon@.wrong && self.mon@.other_taken == 0'
INV1 = 'invariant ' + CLEAN + ', self.mon@.bang_taken, self.mon@.bars == 0, self.mon@.cmds.len() == 0,'
INV2_EXC = ('invariant_except_break self.mon@.cmds.len() == self.mon@.bars, cmd_ids(commands@) == self.mon@.cmds, '
            'invariant ' + CLEAN + ', self.mon@.bang_taken == negation, self.mon@.bars >= 1, '
            'ensures self.mon@.cmds == cmd_ids(commands@).push(verif_lv2.verif_id), self.mon@.cmds.len() == self.mon@.bars + 1,')
UNIT = {
    'name': 'pipelineparse',
    'property': 'C02',
    'rlimit': 100,
    'controls': 'auto',
    'verus_args': ['--edition=2024'],
    'vacuity_floor': 1,
    'items': [
        ('@raw', 'pub mod ppm {\n' + MOD_HEAD),
        ('@file', 'prelude.rs'),
        (PP, ["impl Parser<'_, '_>", 'fn pipeline'], {'ret': 'r', 'rewrites': ['strip-async'],
            'attrs': ['#[verifier::loop_isolation(false)]', '#[verifier::allow_complex_invariants]', '#[verifier::exec_allows_no_decreases_clause]'],
            'token_rewrites': [
                # rule loop-break-value, twice
                ('loop { match self . command ( ) . await ? { Rec :: AliasSubstituted => continue , Rec :: Parsed ( Some ( first ) ) => break ( first , true ) ,',
                 'let verif_lv1: (Command, bool); loop ' + INV1 + ' { match self.command()? { Rec::AliasSubstituted => continue, Rec::Parsed(Some(first)) => { verif_lv1 = (first, true); break; }'),
                ('return Err ( Error { cause , location } ) ; } } } } } ;', 'return Err(Error { cause, location }); } } } verif_lv1 } };'),
                ('let next = loop {', 'let verif_lv2: Command; loop ' + INV2_EXC + ' {'),
                ('Rec :: Parsed ( Some ( next ) ) => break next ,', 'Rec::Parsed(Some(next)) => { verif_lv2 = next; break; }'),
                ('return Err ( Error { cause , location } ) ; } } } ; commands . push ( Rc :: new ( next ) ) ;', 'return Err(Error { cause, location }); } } } let next = verif_lv2; commands.push(Rc::new(next));'),
            ],
            # alternative annotation set (same contract) for a body that looks for the `!` BEFORE it parses the first command and so
            # has no loop after the `!`: only the loop after a `|` is rewritten
            'alt': [{'needs': ['let negation = self . peek_token ( )'],
                     'token_rewrites': [
                ('let next = loop {', 'let verif_lv2: Command; loop ' + INV2_EXC + ' {'),
                ('Rec :: Parsed ( Some ( next ) ) => break next ,', 'Rec::Parsed(Some(next)) => { verif_lv2 = next; break; }'),
                ('return Err ( Error { cause , location } ) ; } } } ; commands . push ( Rc :: new ( next ) ) ;', 'return Err(Error { cause, location }); } } } let next = verif_lv2; commands.push(Rc::new(next));'),
                     ]}],
            'requires': ['!' + M0 + '.wrong', '!' + M0 + '.bang_taken', M0 + '.bars == 0', M0 + '.other_taken == 0', M0 + '.cmds.len() == 0'],
            'ensures': [
                # an alias substitution in the first command position, or no command at all: nothing has been consumed
                'r matches Ok(Rec::AliasSubstituted) ==> ' + M1 + ' == ' + M0,
                'r matches Ok(Rec::Parsed(None)) ==> ' + M1 + ' == ' + M0,
                # a pipeline: every token consumed was in turn; it is negated iff a `!` was consumed; its commands are the commands
                # parsed, in order; a `|` was consumed between every two of them; nothing else was consumed
                'r matches Ok(Rec::Parsed(Some(p))) ==> !' + M1 + '.wrong && p.negation == ' + M1 + '.bang_taken && cmd_ids(p.commands@) == ' + M1 + '.cmds && p.commands@.len() >= 1 && ' + M1 + '.bars == p.commands@.len() - 1 && ' + M1 + '.other_taken == 0',
            ],
            'loops': {
                0: {'invariant': [CLEAN, 'self.mon@.bang_taken == negation', 'self.mon@.cmds.len() == self.mon@.bars + 1', 'cmd_ids(commands@) == self.mon@.cmds']},
                1: {'invariant': [CLEAN, 'self.mon@.bang_taken == negation', 'self.mon@.cmds.len() == self.mon@.bars', 'cmd_ids(commands@) == self.mon@.cmds', 'self.mon@.bars >= 1']},
            }}),
        ('@raw', '}\n'),
    ],
}
