# Unit vfork: what a process of the simulated system inherits at fork (kernel of C08).
PR = 'yash-env/src/system/virtual/process.rs'
MOD_HEAD = '''    use vstd::prelude::*;
'''
INH = ['uid', 'euid', 'gid', 'egid', 'fds', 'umask', 'cwd', 'dispositions', 'blocked_signals', 'resource_limits']
UNIT = {
    'name': 'vfork',
    'property': 'C08',
    'rlimit': 40,
    'verus_args': ['--edition=2024'],
    'vacuity_floor': 1,
    'controls': {PR + '::Process::fork_from': {'ensures': {'append': 'false'}}},
    'control_expect': ['fork_from'],
    'items': [
        ('@raw', 'pub mod vf {\n' + MOD_HEAD),
        ('@file', 'prelude.rs'),
        (PR, ['impl Process', 'fn with_parent_and_group'], {'ret': 'r',
            'token_rewrites': [('BTreeMap :: new ( )', 'FdTable::new()'), ('dispositions : HashMap :: new ( )', 'dispositions: DispositionTable::new()'), ('Vec :: new ( )', 'SignalVec::new()'), ('resource_limits : HashMap :: new ( )', 'resource_limits: LimitTable::new()')],
            'ensures': ['r.ppid == ppid && r.pgid == pgid && r.state is Running', 'r.pending_signals.verif_v == 0 && r.caught_signals.verif_v == 0 && r.caught_signals_count == 0']}),
        (PR, ['impl Process', 'fn fork_from'], {'ret': 'r',
            'ensures': [
                # the child inherits the per-process state of its parent ...
                ' && '.join('r.%s == parent.%s' % (f, f) for f in INH),
                # ... belongs to the parent's process group, has the given parent, runs, and has no pending or caught signal
                'r.ppid == ppid && r.pgid == parent.pgid && r.state is Running && r.pending_signals.verif_v == 0 && r.caught_signals.verif_v == 0 && r.caught_signals_count == 0',
            ]}),
        ('@raw', '}\n'),
    ],
}
