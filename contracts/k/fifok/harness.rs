//! Kani harnesses for the byte queue of a simulated pipe (yash-env/src/system/virtual/file_body.rs FileBody::poll_read /
//! poll_write on FIFOs), injected as a child module of that file.  Structure-independent sibling of the Verus unit fifo
//! (which is unbounded but tied to the shape of the loops): the queue law of property C14 - "bytes ... reach the reader
//! completely, exactly once and in order" - on small queues whose ring buffer has WRAPPED AROUND, so that the bytes in
//! flight sit in two slices of the underlying storage.
#![allow(dead_code, unused_imports)]
use super::*;
use std::cell::Cell;
use std::rc::{Rc, Weak};
use std::task::{Poll, Waker};

/// a FIFO holding `bytes` whose ring buffer has been rotated by `rot` positions (pushes and pops that cancel out)
fn fifo_with(bytes: &[u8], rot: usize, writers: usize) -> FileBody {
    let mut content: VecDeque<u8> = VecDeque::with_capacity(4);
    let mut i = 0;
    while i < rot {
        content.push_back(0xEE);
        i += 1;
    }
    i = 0;
    while i < rot {
        content.pop_front();
        i += 1;
    }
    i = 0;
    while i < bytes.len() {
        content.push_back(bytes[i]);
        i += 1;
    }
    FileBody::Fifo {
        content,
        readers: 1,
        writers,
        pending_open_wakers: WakerSet::new(),
        pending_read_wakers: WakerSet::new(),
        pending_write_wakers: WakerSet::new(),
    }
}

fn check_read(n: usize, rot: usize) {
    let data: [u8; 4] = kani::any();
    let mut fifo = fifo_with(&data[..n], rot, 1);
    let want: usize = kani::any();
    kani::assume(want <= 4);
    let mut buffer = [0u8; 4];
    let r = fifo.poll_read(&mut buffer[..want], 0, || Weak::new());
    let expect = if want < n { want } else { n };
    if want == 0 {
        assert!(r == Poll::Ready(Ok(0)), "an empty buffer reads nothing");
    } else if n == 0 {
        assert!(r.is_pending(), "an empty pipe with a writer blocks the reader");
    } else {
        assert!(r == Poll::Ready(Ok(expect)), "a read takes min(len(buffer), len(queue)) bytes");
        let mut i = 0;
        while i < expect {
            assert!(buffer[i] == data[i], "the bytes arrive in the order they were written");
            i += 1;
        }
    }
    // what stays in the pipe is exactly the rest, in order
    if let FileBody::Fifo { content, .. } = &fifo {
        let taken = if want == 0 || n == 0 { 0 } else { expect };
        assert!(content.len() == n - taken, "nothing is lost and nothing is duplicated");
        let mut i = 0;
        while i < n - taken {
            assert!(content[i] == data[taken + i], "the rest stays in order");
            i += 1;
        }
    }
    std::mem::forget(fifo);
}

#[kani::proof]
#[kani::unwind(6)]
fn c14q_fifo_read_unwrapped() {
    let n: usize = kani::any();
    kani::assume(n <= 3);
    check_read(n, 0);
}
#[kani::proof]
#[kani::unwind(6)]
fn c14q_fifo_read_wrapped_by_2() {
    check_read(3, 2);
}
#[kani::proof]
#[kani::unwind(6)]
fn c14q_fifo_read_wrapped_by_3() {
    check_read(2, 3);
}
/// negative control: must be refuted
#[kani::proof]
#[kani::unwind(6)]
fn c14x_control_read_takes_everything() {
    let mut fifo = fifo_with(&[1, 2, 3], 0, 1);
    let mut buffer = [0u8; 2];
    let r = fifo.poll_read(&mut buffer, 0, || Weak::new());
    assert!(r == Poll::Ready(Ok(3)), "control: a 2-byte buffer receives 3 bytes (false)");
    std::mem::forget(fifo);
}

// native replay of a Kani counterexample (bin/vcheck replay): the generated test is included here
#[cfg(verif_playback)]
include!("/verif/work/k/playback/fifok_harness.rs");
