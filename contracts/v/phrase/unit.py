PHRASE = 'yash-semantics/src/expansion/phrase.rs'
ATTR = 'yash-env/src/semantics/expansion/attr.rs'
MOD_HEAD = '''    use vstd::prelude::*;
'''
UNIT = {
    'name': 'phrase',
    'property': 'C01',
    'rlimit': 60,
    'verus_args': ['--edition=2024'],
    'crate_attrs': ['#![feature(allocator_api)]'],
    'vacuity_floor': 6,
    'items': [
        ('@raw', 'pub mod phax {\n' + MOD_HEAD),
        ('@file', 'prelude_std.rs'),
        ('@raw', '}\n'),
        ('@raw', 'pub mod ph {\n' + MOD_HEAD + '    use super::phax::*;\n'),
        ('@broadcast', ['super::phax::axiom_yielded_vec']),
        (ATTR, ['enum Origin']),
        (ATTR, ['struct AttrChar']),
        (PHRASE, ['enum Phrase'], {'drop_derives': True}),
        ('@raw', 'use Phrase::*;\n'),
        ('@file', 'prelude.rs'),
        (PHRASE, ['impl Phrase', 'fn zero_fields'], {'ret': 'r', 'ensures': ['view(r) =~= Seq::<Seq<AttrChar>>::empty()']}),
        (PHRASE, ['impl Phrase', 'fn append'], {
            'token_rewrites': [('left . extend ( right . drain ( 1 . . ) )', 'verif_extend_drain_from(left, right, 1)')],
            'ensures': [
                'view(*final(self)) =~~= join(view(*old(self)), view(*old(other)))',
                'view(*final(other)) =~= Seq::<Seq<AttrChar>>::empty()',
            ]}),
        (PHRASE, ['impl Phrase', 'fn one_empty_field'], {'ret': 'r', 'ensures': ['view(r) =~~= seq![Seq::<AttrChar>::empty()]']}),
        (PHRASE, ['impl Phrase', 'fn is_zero_fields'], {'ret': 'r', 'ensures': ['r == (view(*self).len() == 0)']}),
        (PHRASE, ['impl Phrase', 'fn field_count'], {'ret': 'r', 'ensures': ['r == view(*self).len()']}),
        (PHRASE, ['impl AddAssign for Phrase', 'fn add_assign'], {'wrapper': 'impl Phrase', 'ensures': [
            'view(*final(self)) =~~= join(view(*old(self)), view(other))']}),
        (PHRASE, ['impl Phrase', 'fn ifs_join'], {'ret': 'r',
            'token_rewrites': [
                ('''match vars.get(IFS).and_then(|v| v.value.as_ref()) {
                        Some(Value::Scalar(value)) => value.chars().next(),
                        Some(Value::Array(values)) => {
                            values.first().and_then(|value| value.chars().next())
                        }
                        None => Some(' '),
                    }
                    .map(|c| AttrChar {
                        value: c,
                        origin: Origin::SoftExpansion,
                        is_quoted: false,
                        is_quoting: false,
                    })''', 'verif_ifs_separator(vars)'),
                ('''result.reserve_exact(
                        i.as_slice().iter().map(|field| field.len()).sum::<usize>()
                            + i.as_slice().len(),
                    )''', 'verif_reserve_for_join(&mut result, &i)'),
                ('for field in i', 'for field in verif_it: i'),
            ],
            'attrs': ['#[verifier::loop_isolation(false)]'],
            'entry_snapshots': ['self'],
            'ensures': ['r@ =~= join_with(view(self), ifs_separator(vars))'],
            'loops': {0: {
                'invariant': [
                    'verif_it.seq().len() + 1 == view(verif_entry_self).len()',
                    'forall|k: int| 0 <= k < verif_it.seq().len() ==> (#[trigger] verif_it.seq()[k])@ == view(verif_entry_self)[k + 1]',
                    'result@ =~= join_with(view(verif_entry_self).subrange(0, 1 + verif_it.index()), separator)',
                    'verif_it.index() == verif_it.seq().len() ==> result@ =~= join_with(view(verif_entry_self), separator)',
                ],
                'body_end': 'proof { let v = view(verif_entry_self); let k = verif_it.index() as int; assert(v.subrange(0, k + 2).drop_last() =~= v.subrange(0, k + 1)); assert(v.subrange(0, k + 2).last() == v[k + 1]); assert(v.subrange(0, v.len() as int) =~= v); }',
            }},
        }),
        ('@raw', '}\n'),
    ],
}
