// ---------------------------------------------------------------------------
// Prelude of unit leaddot (properties C05 / C04, kernel): yash-fnmatch/src/ast.rs Ast::starts_with_literal_dot - the flag that
// switches the rejection of a leading period off (lib.rs: `literal_period && !starts_with_literal_dot && text.starts_with('.')`).
// C05 "a leading period only [matches] a literal period": the flag is set exactly for a pattern whose FIRST atom is the literal
// character `.`; a bracket expression (even `[.]`), `?` or `*` in first position never counts as a literal period.
//
// Hand-written model text (ASSUMED): the derived PartialEq of Atom compares the variant and then the fields (what it answers
// for two bracket expressions is left open).
// ---------------------------------------------------------------------------
pub uninterp spec fn bracket_eq(a: Bracket, b: Bracket) -> bool;
impl vstd::std_specs::cmp::PartialEqSpecImpl for Atom {
    open spec fn obeys_eq_spec() -> bool { true }
    open spec fn eq_spec(&self, other: &Atom) -> bool {
        match (*self, *other) {
            (Atom::Char(x), Atom::Char(y)) => x == y,
            (Atom::AnyChar, Atom::AnyChar) => true,
            (Atom::AnyString, Atom::AnyString) => true,
            (Atom::Bracket(x), Atom::Bracket(y)) => bracket_eq(x, y),
            _ => false,
        }
    }
}
