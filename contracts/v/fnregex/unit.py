# Unit fnregex: the escaping kernel of the pattern -> regex translation of yash-fnmatch (property C04),
# for EVERY character (non-ASCII included): the unbounded counterpart of the ASCII enumeration of k/fnmatch.
AST = 'yash-fnmatch/src/ast.rs'
RX = 'yash-fnmatch/src/ast/regex.rs'
LIB = 'yash-fnmatch/src/lib.rs'
MOD_HEAD = '''    use vstd::prelude::*;
    use std::ops::RangeInclusive;
'''
DYN = {'dyn_generic': {'Write': 'verif_W'}}
UNIT = {
    'name': 'fnregex',
    'property': 'C04',
    'rlimit': 60,
    'crate_attrs': ['#![feature(pattern)]'],
    'verus_args': ['--edition=2024'],
    'vacuity_floor': 5,
    'items': [
        # constants, their proved character views and the std model: a module of their own (broadcast rule)
        ('@raw', 'pub mod rc {\n' + MOD_HEAD),
        (RX, ['const SPECIAL_CHARS'], {'vis': 'pub', 'static_str': True}),
        (RX, ['const BRACKET_SPECIAL_CHARS'], {'vis': 'pub', 'static_str': True}),
        ('@strlit_lemma', RX, 'SPECIAL_CHARS', 'lemma_special_chars'),
        ('@strlit_lemma', RX, 'BRACKET_SPECIAL_CHARS', 'lemma_bracket_special_chars'),
        ('@file', 'prelude_std.rs'),
        ('@raw', '}\n'),
        ('@raw', 'pub mod rx {\n' + MOD_HEAD + '    use super::rc::*;\n'),
        ('@broadcast', ['super::rc::lemma_special_chars', 'super::rc::lemma_bracket_special_chars', 'super::rc::axiom_pat_char', 'super::rc::lemma_dot_star']),
        ('@raw', 'pub mod regex { pub struct Error; }\n#[verifier::external]\npub struct ClassAsciiKind;\n#[verifier::external]\nimpl ClassAsciiKind { pub fn from_name(_n: &str) -> Option<ClassAsciiKind> { None } }\n'),
        (LIB, ['enum Error'], {'drop_derives': True}),
        (LIB, ['struct Config'], {'drop_derives': True}),
        ('@raw', 'type Result = std::result::Result<(), Error>;\n'),
        (AST, ['enum BracketAtom'], {'drop_derives': True}),
        (AST, ['enum BracketItem'], {'drop_derives': True}),
        (AST, ['struct Bracket'], {'drop_derives': True}),
        (AST, ['enum Atom'], {'drop_derives': True}),
        ('@file', 'prelude.rs'),
        (RX, ['impl BracketAtom', 'fn fmt_regex_char'], dict(DYN, ret='r', ensures=[
            'r is Ok',
            # what is appended denotes the literal c inside a character class, for every char
            'emits_lit_inside(old(regex).out(), final(regex).out(), c)',
        ])),
        # The three functions below contain string iteration (`chars()`, `try_for_each`), `format_args!` and `for`
        # loops over items, outside Verus's subset: their contracts are ASSUMED here (what is appended is some text;
        # nothing written before is changed) and their per-character behaviour is checked by Kani (k/fnmatch, bounded).
        (RX, ['impl BracketAtom', 'fn fmt_regex'], dict(DYN, ret='r', attrs=['#[verifier::external_body]'], ensures=[
            'old(regex).out().is_prefix_of(final(regex).out())',
            'self is Char ==> r is Ok && emits_lit_inside(old(regex).out(), final(regex).out(), self->Char_0)'])),
        (RX, ['impl BracketAtom', 'fn fmt_regex_single'], dict(DYN, ret='r', attrs=['#[verifier::external_body]'], ensures=[
            'old(regex).out().is_prefix_of(final(regex).out())',
            'self is Char ==> r is Ok && emits_lit_inside(old(regex).out(), final(regex).out(), self->Char_0)'])),
        (RX, ['impl BracketAtom', 'fn matches_multi_character'], {'attrs': ['#[verifier::external_body]']}),
        (RX, ['impl BracketItem', 'fn matches_multi_character'], {'attrs': ['#[verifier::external_body]']}),
        (RX, ['impl Bracket', 'fn matches_multi_character'], {'attrs': ['#[verifier::external_body]']}),
        (RX, ['impl Bracket', 'fn fmt_regex'], dict(DYN, ret='r', attrs=['#[verifier::external_body]'], ensures=[
            'old(regex).out().is_prefix_of(final(regex).out())'])),
        (RX, ['impl BracketItem', 'fn fmt_regex'], dict(DYN, ret='r', ensures=[
            'old(regex).out().is_prefix_of(final(regex).out())',
            # a single character stands for itself
            'self is Atom && self->Atom_0 is Char ==> r is Ok && emits_lit_inside(old(regex).out(), final(regex).out(), self->Atom_0->Char_0)',
            # a range of two characters: <start> - <end>, the hyphen unescaped (the range operator), both ends literal
            'self is Range && self->Range_0@.start is Char && self->Range_0@.end is Char ==> r is Ok && exists|m1: Seq<char>| #![trigger m1.push(\'-\')] '
            'emits_lit_inside(old(regex).out(), m1, self->Range_0@.start->Char_0) && emits_lit_inside(m1.push(\'-\'), final(regex).out(), self->Range_0@.end->Char_0)',
        ])),
        (RX, ['impl Atom', 'fn fmt_regex'], dict(DYN, ret='r', ensures=[
            'old(regex).out().is_prefix_of(final(regex).out())',
            # a literal character denotes itself, whatever it is; ? is any one character; * is any string
            'self is Char ==> r is Ok && emits_lit_outside(old(regex).out(), final(regex).out(), self->Char_0)',
            'self is AnyChar ==> r is Ok && final(regex).out() == old(regex).out().push(\'.\')',
            'self is AnyString ==> r is Ok && final(regex).out() == old(regex).out().push(\'.\').push(\'*\')',
        ])),
        ('@raw', '}\n'),
    ],
}
