#![allow(dead_code, unused_imports)]
use super::*;
use super::verif_joblist_harness::*;

#[kani::proof]
#[kani::unwind(6)]
fn p1_build_only() {
    let list = shaped_list(1, &[], 0, 1);
    let s = snapshot(&list, 2);
    assert!(s.len == 1);
}

#[kani::proof]
#[kani::unwind(6)]
fn p2_build_wf() {
    let list = shaped_list(1, &[], 0, 1);
    let s = snapshot(&list, 2);
    kani::assume(wf_snap(&s, &list, 2));
    assert!(s.len == 1);
}

#[kani::proof]
#[kani::unwind(6)]
fn p3_insert_fresh() {
    let mut list = shaped_list(1, &[], 0, 1);
    let s = snapshot(&list, 2);
    kani::assume(wf_snap(&s, &list, 2));
    let job = any_job();
    kani::assume(s.find(job.pid, 2).is_none());
    let i = list.insert(job);
    assert!(i == 1);
}

#[kani::proof]
#[kani::unwind(6)]
fn p4_insert_wf() {
    let mut list = shaped_list(1, &[], 0, 1);
    let s = snapshot(&list, 2);
    kani::assume(wf_snap(&s, &list, 2));
    let job = any_job();
    kani::assume(s.find(job.pid, 2).is_none());
    let i = list.insert(job);
    let post = snapshot(&list, 2);
    assert!(wf_snap(&post, &list, 2));
}

#[kani::proof]
#[kani::unwind(6)]
fn p5_insert_fresh_concrete_pid() {
    let mut list = shaped_list(1, &[], 0, 1);
    let s = snapshot(&list, 2);
    kani::assume(wf_snap(&s, &list, 2));
    let job = any_job_with_pid(Pid(7));
    let i = list.insert(job);
    let post = snapshot(&list, 2);
    assert!(wf_snap(&post, &list, 2));
}
#[kani::proof]
#[kani::unwind(6)]
fn p6_insert_existing_concrete_pid() {
    let mut list = shaped_list(2, &[], 0, 1);
    let s = snapshot(&list, 3);
    kani::assume(wf_snap(&s, &list, 3));
    let job = any_job_with_pid(Pid(101));
    kani::assume(!s.get(1).unwrap().state.is_alive());
    let i = list.insert(job);
    let post = snapshot(&list, 3);
    assert!(wf_snap(&post, &list, 3));
}
#[kani::proof]
#[kani::unwind(6)]
fn p7_insert_s3_concrete_pid() {
    let mut list = shaped_list(3, &[1], 2, 0);
    let s = snapshot(&list, 4);
    kani::assume(wf_snap(&s, &list, 4));
    let job = any_job_with_pid(Pid(7));
    let i = list.insert(job);
    let post = snapshot(&list, 4);
    assert!(wf_snap(&post, &list, 4));
}
