// ---------------------------------------------------------------------------
// Prelude of unit jobstatus (properties C13 / C12, kernel): job.rs handle_job_status, what the shell does with the result
// of a child it has awaited synchronously (subshell, external utility, job-controlled pipeline, redirection subshell).
// C13 "`$?` ... report each child's true exit status": the status handed on is the status the child's result stands for
// (its own when it exited, the one that stands for the signal when it was killed or stopped).  C12: a child that was
// STOPPED - and no other - enters the job table as a job-controlled job with exactly its process ID and its halted state;
// an interactive shell is then interrupted (so are its loops), as it is when the child was killed by SIGINT while
// SIGINT has its default action.
//
// Hand-written model text (ASSUMED): JobList::insert (unit joblist) and the two tests on the environment are opaque calls /
// ghost-backed fields; From<signal::Number> for ExitStatus is uninterpreted; the job name is an FnOnce value whose call has
// no precondition (precondition of the function under contract).
// ---------------------------------------------------------------------------
pub assume_specification<B, C>[ <ControlFlow<B, C> as core::ops::Try>::branch ](cf: ControlFlow<B, C>) -> (r: ControlFlow<<ControlFlow<B, C> as core::ops::Try>::Residual, <ControlFlow<B, C> as core::ops::Try>::Output>)
    ensures match cf { ControlFlow::Continue(c) => r == ControlFlow::<ControlFlow<B, core::convert::Infallible>, C>::Continue(c), ControlFlow::Break(b) => r == ControlFlow::<ControlFlow<B, core::convert::Infallible>, C>::Break(ControlFlow::Break(b)) };
pub mod signal { #[derive(Clone, Copy, Debug, Eq, PartialEq)] pub struct Number(pub i32); }
impl vstd::std_specs::cmp::PartialEqSpecImpl for signal::Number {
    open spec fn obeys_eq_spec() -> bool { true }
    open spec fn eq_spec(&self, other: &signal::Number) -> bool { *self == *other }
}
#[derive(Clone, Copy, Debug, PartialEq, Eq)]
pub struct Pid(pub i32);
pub trait Signals { const SIGINT: signal::Number; }
pub uninterp spec fn status_of_signal(n: signal::Number) -> ExitStatus;
impl From<signal::Number> for ExitStatus {
    #[verifier::external_body]
    fn from(n: signal::Number) -> (e: ExitStatus) ensures e == status_of_signal(n) { unimplemented!() }
}
impl vstd::std_specs::convert::FromSpecImpl<signal::Number> for ExitStatus {
    open spec fn obeys_from_spec() -> bool { true }
    open spec fn from_spec(n: signal::Number) -> ExitStatus { status_of_signal(n) }
}
impl vstd::std_specs::convert::FromSpecImpl<ProcessResult> for ExitStatus {
    open spec fn obeys_from_spec() -> bool { true }
    open spec fn from_spec(r: ProcessResult) -> ExitStatus { exit_status_of(r) }
}
impl vstd::std_specs::convert::FromSpecImpl<ProcessResult> for ProcessState {
    open spec fn obeys_from_spec() -> bool { true }
    open spec fn from_spec(r: ProcessResult) -> ProcessState { ProcessState::Halted(r) }
}
pub open spec fn exit_status_of(r: ProcessResult) -> ExitStatus {
    match r {
        ProcessResult::Exited(s) => s,
        ProcessResult::Stopped(signal) => status_of_signal(signal),
        ProcessResult::Signaled { signal, core_dump } => status_of_signal(signal),
    }
}
pub struct JobList { pub inserted: Ghost<Seq<Job>> }
impl JobList {
    /// job.rs JobList::insert (unit joblist)
    #[verifier::external_body]
    pub fn insert(&mut self, job: Job) -> (r: usize) ensures final(self).inserted@ == old(self).inserted@.push(job) { unimplemented!() }
}
pub struct Env<S> { pub jobs: JobList, pub verif_interactive: bool, pub verif_sigint_default: bool, pub system: S }
impl<S> Env<S> {
    #[verifier::external_body]
    pub fn is_interactive(&self) -> (r: bool) ensures r == self.verif_interactive { unimplemented!() }
    #[verifier::external_body]
    pub fn sigint_has_default_action(&self) -> (r: bool) ensures r == self.verif_sigint_default { unimplemented!() }
}
