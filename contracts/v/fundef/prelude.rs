// ---------------------------------------------------------------------------
// Prelude of unit fundef (property C02, kernel): a function definition command
// (yash-semantics/src/command/function_definition.rs FunctionDefinition::execute, define_function).
// C02 "function definitions and calls ... the value of `$?`": the name is expanded once; a function of exactly that name
// whose body is the body of the definition is handed to the function set once; `$?` is 0 when it was accepted and 2 when
// an existing read-only function refuses the redefinition (reported once, the old function stays: FunctionSet::define is
// opaque here); an error expanding the name is handled once and nothing is defined; errexit is consulted exactly once
// afterwards unless the handler diverted.
//
// Hand-written model text (ASSUMED): expand_word, the error handler, FunctionSet::define, report_define_error and
// apply_errexit are opaque calls appending to ghost state; the `unsafe` pointer cast that turns the body
// `Rc<FullCompoundCommand>` into `Rc<dyn FunctionBodyObject>` (three lines) is ONE helper that keeps the identity of the
// body (unsafe code: trusted).  Await points dropped.
// ---------------------------------------------------------------------------
pub assume_specification<B, C>[ <ControlFlow<B, C> as core::ops::Try>::branch ](cf: ControlFlow<B, C>) -> (r: ControlFlow<<ControlFlow<B, C> as core::ops::Try>::Residual, <ControlFlow<B, C> as core::ops::Try>::Output>)
    ensures match cf { ControlFlow::Continue(c) => r == ControlFlow::<ControlFlow<B, core::convert::Infallible>, C>::Continue(c), ControlFlow::Break(b) => r == ControlFlow::<ControlFlow<B, core::convert::Infallible>, C>::Break(ControlFlow::Break(b)) };
pub assume_specification<B, C>[ <ControlFlow<B, C> as core::ops::FromResidual<ControlFlow<B, core::convert::Infallible>>>::from_residual ](res: ControlFlow<B, core::convert::Infallible>) -> (r: ControlFlow<B, C>)
    ensures res matches ControlFlow::Break(b) ==> r == ControlFlow::<B, C>::Break(b);
pub trait Runtime {}
pub struct Location { pub verif_opaque: u8 }
pub struct Word { pub verif_id: int }
pub struct Field { pub value: String, pub origin: Location }
pub struct FullCompoundCommand { pub verif_id: int }
pub mod syntax {
    pub use super::FullCompoundCommand;
    pub struct FunctionDefinition { pub has_keyword: bool, pub name: super::Word, pub body: std::rc::Rc<FullCompoundCommand> }
}
pub struct BodyObject { pub verif_id: int }
pub struct Function<S> { pub name: String, pub body: Rc<BodyObject>, pub origin: Location, pub verif_s: core::marker::PhantomData<S> }
impl<S> Function<S> {
    #[verifier::external_body]
    pub fn new(name: String, body: Rc<BodyObject>, origin: Location) -> (f: Function<S>) ensures f.name == name, f.body == body { unimplemented!() }
}
pub struct DefineError<S> { pub verif_s: core::marker::PhantomData<S> }
pub struct ExpansionError { pub verif_opaque: u8 }
/// what the definition asked the function set for
pub struct Defined { pub name: Seq<char>, pub body: int, pub accepted: bool }
pub struct FunctionSet<S> { pub log: Ghost<Seq<Defined>>, pub verif_s: core::marker::PhantomData<S> }
impl<S> FunctionSet<S> {
    /// function.rs FunctionSet::define: refuses to replace a read-only function
    #[verifier::external_body]
    pub fn define(&mut self, function: Function<S>) -> (r: std::result::Result<Option<Rc<Function<S>>>, DefineError<S>>)
        ensures final(self).log@ == old(self).log@.push(Defined { name: function.name@, body: function.body.verif_id, accepted: r is Ok })
    { unimplemented!() }
}
pub struct Mon { pub expanded: Seq<int>, pub expansion_result: Option<Seq<char>>, pub handled: nat, pub handler_result: Option<Result>, pub reported: nat,
    pub errexit_consulted: nat, pub errexit_status: Option<ExitStatus>, pub errexit_result: Option<Result> }
pub struct Env<S> { pub exit_status: ExitStatus, pub functions: FunctionSet<S>, pub mon: Ghost<Mon>, pub system: S }
/// expansion.rs expand_word: the name of the function
#[verifier::external_body]
pub fn expand_word<S>(env: &mut Env<S>, word: &Word) -> (r: std::result::Result<(Field, Option<ExitStatus>), ExpansionError>)
    ensures final(env).mon@ == (Mon { expanded: old(env).mon@.expanded.push(word.verif_id), expansion_result: match r { Ok(p) => Some(p.0.value@), Err(_) => None }, ..old(env).mon@ }),
        final(env).functions == old(env).functions
{ unimplemented!() }
impl ExpansionError {
    #[verifier::external_body]
    pub fn handle<S>(&self, env: &mut Env<S>) -> (r: Result)
        ensures final(env).mon@ == (Mon { handled: old(env).mon@.handled + 1, handler_result: Some(r), ..old(env).mon@ }), final(env).functions == old(env).functions
    { unimplemented!() }
}
/// `let body = Rc::clone(&def.body); let body = Rc::into_raw(body).cast::<BodyImpl>(); let body = unsafe { Rc::from_raw(body) };`
/// followed by the unsizing cast: the same body seen as a function body object (BodyImpl is repr(transparent))
#[verifier::external_body]
pub fn verif_body_object(body: &Rc<FullCompoundCommand>) -> (r: Rc<BodyObject>) ensures r.verif_id == body.verif_id { unimplemented!() }
#[verifier::external_body]
pub fn report_define_error<S>(env: &mut Env<S>, error: &DefineError<S>)
    ensures final(env).mon@ == (Mon { reported: old(env).mon@.reported + 1, ..old(env).mon@ }), final(env).functions == old(env).functions, final(env).exit_status == old(env).exit_status
{ unimplemented!() }
impl<S> Env<S> {
    #[verifier::external_body]
    pub fn apply_errexit(&mut self) -> (r: Result)
        ensures final(self).mon@ == (Mon { errexit_consulted: old(self).mon@.errexit_consulted + 1, errexit_status: Some(old(self).exit_status), errexit_result: Some(r), ..old(self).mon@ }),
            final(self).functions == old(self).functions, final(self).exit_status == old(self).exit_status
    { unimplemented!() }
}
pub trait Command<S> { fn execute(&self, env: &mut Env<S>) -> Result; }
