# Unit runtrap: how one trap action is run (kernel of C11).
TR = 'yash-semantics/src/trap.rs'
SEM = 'yash-env/src/semantics.rs'
MOD_HEAD = '''    use vstd::prelude::*;
    use std::ops::ControlFlow::{self, Break, Continue};
    use std::ffi::c_int;
    use std::rc::Rc;
'''
R1 = 'final(env).verif_runs@'
UNIT = {
    'name': 'runtrap',
    'property': 'C11',
    'rlimit': 60,
    'verus_args': ['--edition=2024'],
    'vacuity_floor': 1,
    'items': [
        ('@raw', 'pub mod semantics { pub type Result<T = ()> = std::ops::ControlFlow<crate::rt::Divert, T>; }\n'),
        ('@raw', 'pub mod rt {\n' + MOD_HEAD + '    pub use crate::semantics::Result;\n'),
        (SEM, ['struct ExitStatus']),
        (SEM, ['enum Divert']),
        ('@file', 'prelude.rs'),
        (TR, ['fn run_trap'], {'ret': 'r', 'rewrites': ['strip-async'],
            'sig_token_rewrites': [('code : Rc < str >', 'code: Rc<Code>')],
            'token_rewrites': [
                ('let condition = cond . to_string ( & env . system ) . into_owned ( ) ; let mut lexer = Lexer :: from_memory ( & code , Source :: Trap { condition , origin } ) ;', 'let mut lexer = verif_lexer(env, cond, &code, origin);'),
                ('let mut env = env . push_frame ( Frame :: Trap ( cond ) ) ;', 'let mut verif_fg = env.push_frame(Frame::Trap(cond)); let env = &mut *verif_fg.env;'),
                ('Box :: pin ( read_eval_loop ( & RefCell :: new ( & mut env ) , & mut lexer ) ) . await', 'read_eval_loop(env, &mut lexer)'),
            ],
            'ensures': [
                # the action's command text is run exactly once, inside a Trap frame for its condition on top of the caller's frames
                R1 + '.len() == old(env).verif_runs@.len() + 1', R1 + '.subrange(0, old(env).verif_runs@.len() as int) =~= old(env).verif_runs@',
                R1 + '.last().code == code.verif_id', R1 + '.last().frames == old(env).verif_frames@.push(Frame::Trap(cond))', R1 + '.last().status_before == old(env).exit_status',
                'final(env).verif_frames@ == old(env).verif_frames@',
                # `$?` is preserved - unless the action was interrupted, in which case the interrupt carries the `$?` the action left
                '!(' + R1 + '.last().result matches ControlFlow::Break(Divert::Interrupt(_))) ==> final(env).exit_status == old(env).exit_status && r == ' + R1 + '.last().result',
                R1 + '.last().result matches ControlFlow::Break(Divert::Interrupt(Some(_))) ==> r == ControlFlow::<Divert, ()>::Break(Divert::Interrupt(Some(' + R1 + '.last().status_after)))',
                R1 + '.last().result matches ControlFlow::Break(Divert::Interrupt(None)) ==> r == ' + R1 + '.last().result',
            ]}),
        ('@raw', '}\n'),
    ],
}
