// ---------------------------------------------------------------------------
// Prelude of unit builtincall (properties C02 / C09 / C10 / C16, kernel): executing a built-in utility
// (yash-semantics/src/command/simple_command/builtin.rs execute_builtin).
// C09: the redirections of the command are performed first, once, under a RedirGuard; afterwards the redirections in
// effect are the caller's - unless the built-in itself asks to keep them (`exec`), in which case the guard is told so
// exactly then.  C10: a failed redirection is reported once and nothing else happens; it interrupts the shell iff the
// built-in is a SPECIAL one (XCU 2.8.1); an ordinary one only leaves the status the handler set.  C16: assignments prefixed
// to a SPECIAL built-in are made in the caller's own contexts, not exported, and stay; those prefixed to any other
// built-in are made exported in a VOLATILE context that is gone afterwards.  C02: the built-in runs at most once, after both
// steps succeeded and the built-in turned out usable, inside a Builtin frame telling whether it is special, with the
// fields after the command name; `$?` is the exit status of its result and the divert of its result is handed on; an unusable
// built-in (not portable / substitutive without a utility in $PATH) is reported once and leaves the status of that error.
//
// Hand-written model text (ASSUMED), as in unit funcall: RAII of the three guards (RedirGuard, context guard, frame guard)
// is assumed in the contracts of their constructors; perform_assignments, resolve_builtin, the error handler and the built-in
// itself are opaque calls that record what was in place.  `Either::Left(&mut *env)` / `Either::Right(env.push_context(..))`
// (the either crate) are checked as two constructors of ONE guard type - "the same environment" / "a pushed context" -
// and the `match &mut env { Left(e) => &mut ***e, Right(e) => &mut **e }` that follows as taking the reference that guard
// holds.  The INTERRUPTIBLE run of a built-in (select between the built-in and SIGINT, the signals caught meanwhile) is ONE
// opaque helper: that part is NOT under contract.  `let x = 'l: { A; if c { p; break 'l v; } B; tail }` is checked as
// `let x = { A; if c { p; v } else { B; tail } }` (rule labeled-block-value-to-else: Verus has no labeled blocks).  Await points dropped.
// ---------------------------------------------------------------------------
pub assume_specification<B, C>[ <ControlFlow<B, C> as core::ops::Try>::branch ](cf: ControlFlow<B, C>) -> (r: ControlFlow<<ControlFlow<B, C> as core::ops::Try>::Residual, <ControlFlow<B, C> as core::ops::Try>::Output>)
    ensures match cf { ControlFlow::Continue(c) => r == ControlFlow::<ControlFlow<B, core::convert::Infallible>, C>::Continue(c), ControlFlow::Break(b) => r == ControlFlow::<ControlFlow<B, core::convert::Infallible>, C>::Break(ControlFlow::Break(b)) };
pub assume_specification<B, C>[ <ControlFlow<B, C> as core::ops::FromResidual<ControlFlow<B, core::convert::Infallible>>>::from_residual ](res: ControlFlow<B, core::convert::Infallible>) -> (r: ControlFlow<B, C>)
    ensures res matches ControlFlow::Break(b) ==> r == ControlFlow::<B, C>::Break(b);
pub struct ExitStatus(pub i32);
pub enum Divert { Continue { count: usize }, Break { count: usize }, Return(Option<ExitStatus>), Interrupt(Option<ExitStatus>), Exit(Option<ExitStatus>), Abort(Option<ExitStatus>) }
pub type Result<T = ()> = ControlFlow<Divert, T>;
pub struct Field { pub value: String, pub origin: Location, pub verif_id: int }
pub struct PositionalParams { pub verif_fields: Seq<int> }
impl PositionalParams {
    #[verifier::external_body]
    pub fn from_fields(fields: Vec<Field>) -> (r: PositionalParams)
        ensures r.verif_fields == Seq::new(fields@.len(), |i: int| fields@[i].verif_id)
    { unimplemented!() }
}
pub enum Context { Regular { positional_params: PositionalParams }, Volatile }
pub struct Body { pub verif_id: int }
pub struct Function<S> { pub body: Rc<Body>, pub verif_s: core::marker::PhantomData<S> }
/// what the body ran with
pub struct BodyRun { pub contexts: Seq<Context>, pub redirs: Seq<int>, pub result: Result, pub status_after: ExitStatus }
/// one call of RedirGuard::perform_redirs: which redirections, and whether all of them succeeded
pub struct RCall { pub ids: Seq<int>, pub ok: bool }
/// one call of perform_assignments (simple_command.rs; unit simplecmd): what was in place when it was called
pub struct ACall { pub contexts: Seq<Context>, pub redirs: Seq<int>, pub export: bool, pub ids: Seq<int>, pub ok: bool }
/// one external utility started (or looked for): what was in place, what it was given
pub struct Started { pub contexts: Seq<Context>, pub redirs: Seq<int>, pub fields: Seq<int>, pub result: Result<ExitStatus> }
pub struct OptionSet { pub verif_opaque: u8 }
pub struct Env<S> { pub exit_status: ExitStatus, pub options: OptionSet, pub verif_contexts: Ghost<Seq<Context>>, pub verif_runs: Ghost<Seq<BodyRun>>,
    /// the redirections in effect (identities, in the order they were performed)
    pub verif_redirs: Ghost<Seq<int>>,
    pub verif_rcalls: Ghost<Seq<RCall>>, pub verif_acalls: Ghost<Seq<ACall>>, pub verif_started: Ghost<Seq<Started>>,
    /// errors handled (reported) / "not found" reports printed
    pub verif_handled: Ghost<nat>, pub verif_not_found: Ghost<nat>,
    /// the frames pushed by this unit's functions (on top of whatever the caller had), the built-ins run, whether the
    /// redirection guard was told to keep the redirections
    pub verif_frames: Ghost<Seq<BFrame>>, pub verif_bruns: Ghost<Seq<BRun>>, pub verif_keep_redirs: Ghost<bool>, pub verif_interactive: bool,
    pub system: S }
/// everything but the contexts, the redirections in effect and `$?` is the same
pub open spec fn same_logs<S>(a: Env<S>, b: Env<S>) -> bool {
    a.verif_runs@ == b.verif_runs@ && a.verif_rcalls@ == b.verif_rcalls@ && a.verif_acalls@ == b.verif_acalls@ && a.verif_started@ == b.verif_started@
    && a.verif_handled@ == b.verif_handled@ && a.verif_not_found@ == b.verif_not_found@ && a.verif_bruns@ == b.verif_bruns@ && a.verif_keep_redirs@ == b.verif_keep_redirs@
}
pub open spec fn same_place<S>(a: Env<S>, b: Env<S>) -> bool { a.verif_contexts@ == b.verif_contexts@ && a.verif_redirs@ == b.verif_redirs@ && a.verif_frames@ == b.verif_frames@ && a.verif_interactive == b.verif_interactive }
pub struct EnvContextGuard<'a, S> { pub env: &'a mut Env<S> }
impl<S> Env<S> {
    /// yash-env/src/variable/guard.rs Env::push_context + the Drop impl of the guard (ASSUMED as a whole, see above)
    #[verifier::external_body]
    pub fn push_context(&mut self, context: Context) -> (g: EnvContextGuard<'_, S>)
        ensures
            g.env.verif_contexts@ == old(self).verif_contexts@.push(context), g.env.exit_status == old(self).exit_status,
            same_logs(*g.env, *old(self)), g.env.verif_redirs@ == old(self).verif_redirs@, g.env.verif_frames@ == old(self).verif_frames@, g.env.verif_interactive == old(self).verif_interactive,
            final(self).verif_frames@ == final(g.env).verif_frames@, final(self).verif_interactive == final(g.env).verif_interactive,
            final(self).verif_contexts@.len() + 1 == final(g.env).verif_contexts@.len(),
            forall|i: int| 0 <= i < final(self).verif_contexts@.len() ==> #[trigger] final(self).verif_contexts@[i] == final(g.env).verif_contexts@[i],
            final(self).exit_status == final(g.env).exit_status, same_logs(*final(self), *final(g.env)), final(self).verif_redirs@ == final(g.env).verif_redirs@
    { unimplemented!() }
}
impl Body {
    #[verifier::external_body]
    pub fn execute<S>(&self, env: &mut Env<S>) -> (r: Result)
        ensures final(env).verif_runs@ == old(env).verif_runs@.push(BodyRun { contexts: old(env).verif_contexts@, redirs: old(env).verif_redirs@, result: r, status_after: final(env).exit_status }),
            same_place(*final(env), *old(env)),
            final(env).verif_rcalls@ == old(env).verif_rcalls@, final(env).verif_acalls@ == old(env).verif_acalls@, final(env).verif_started@ == old(env).verif_started@,
            final(env).verif_handled@ == old(env).verif_handled@, final(env).verif_not_found@ == old(env).verif_not_found@
    { unimplemented!() }
}
/// the hook some callers pass to prepare the environment (a function pointer returning a boxed future in the code)
pub struct EnvPrepHook<S> { pub verif_s: core::marker::PhantomData<S> }
impl<S> EnvPrepHook<S> {
    #[verifier::external_body]
    pub fn call(&self, env: &mut Env<S>)
        ensures same_place(*final(env), *old(env)), same_logs(*final(env), *old(env))
    { unimplemented!() }
}
// ---- the executors' surroundings ----
pub struct Redir { pub verif_id: int }
pub struct Assign { pub verif_id: int }
pub struct XTrace { pub verif_opaque: u8 }
pub struct RedirError { pub verif_opaque: u8 }
pub struct CString { pub verif_opaque: u8 }
pub open spec fn redir_ids(s: Seq<Redir>) -> Seq<int> { Seq::new(s.len(), |i: int| s[i].verif_id) }
pub open spec fn assign_ids(s: Seq<Assign>) -> Seq<int> { Seq::new(s.len(), |i: int| s[i].verif_id) }
pub open spec fn field_ids(s: Seq<Field>) -> Seq<int> { Seq::new(s.len(), |i: int| s[i].verif_id) }
impl XTrace {
    #[verifier::external_body]
    pub fn from_options(options: &OptionSet) -> (r: Option<XTrace>) { unimplemented!() }
}
#[verifier::external_body]
pub fn verif_as_mut(x: &mut Option<XTrace>) -> (r: Option<&mut XTrace>) { x.as_mut() }
#[verifier::external_body]
pub fn trace_fields(xtrace: Option<&mut XTrace>, fields: &Vec<Field>) { unimplemented!() }
#[verifier::external_body]
pub fn print<S>(env: &mut Env<S>, xtrace: Option<XTrace>)
    ensures same_place(*final(env), *old(env)), same_logs(*final(env), *old(env)), final(env).exit_status == old(env).exit_status
{ unimplemented!() }
pub struct RedirGuard<'e, S> { pub env: &'e mut Env<S> }
impl<'e, S> RedirGuard<'e, S> {
    /// yash-semantics/src/redir.rs RedirGuard::new + its Drop impl (unit redir verifies both bodies against the descriptor
    /// table; here RAII is ASSUMED as a whole): when the guard goes away the redirections in effect are those of before
    #[verifier::external_body]
    pub fn new(env: &'e mut Env<S>) -> (g: RedirGuard<'e, S>)
        ensures
            same_place(*g.env, *old(env)), same_logs(*g.env, *old(env)), g.env.exit_status == old(env).exit_status,
            final(env).verif_redirs@ == (if final(g.env).verif_keep_redirs@ { final(g.env).verif_redirs@ } else { old(env).verif_redirs@ }),
            final(env).verif_frames@ == final(g.env).verif_frames@, final(env).verif_interactive == final(g.env).verif_interactive,
            final(env).verif_contexts@ == final(g.env).verif_contexts@, final(env).exit_status == final(g.env).exit_status,
            same_logs(*final(env), *final(g.env))
    { unimplemented!() }
    /// RedirGuard::perform_redirs: all the redirections in order, stopping at the first failure (the ones performed stay
    /// in effect until the guard goes away)
    #[verifier::external_body]
    pub fn perform_redirs(&mut self, redirs: &[Redir], xtrace: Option<&mut XTrace>) -> (r: std::result::Result<Option<ExitStatus>, RedirError>)
        ensures
            // the guard goes on holding the reference it was made with
            mut_ref_future(final(self).env) == mut_ref_future(old(self).env),
            final(self).env.verif_rcalls@ == old(self).env.verif_rcalls@.push(RCall { ids: redir_ids(redirs@), ok: r is Ok }),
            r is Ok ==> final(self).env.verif_redirs@ == old(self).env.verif_redirs@ + redir_ids(redirs@),
            final(self).env.verif_contexts@ == old(self).env.verif_contexts@, final(self).env.verif_frames@ == old(self).env.verif_frames@, final(self).env.verif_interactive == old(self).env.verif_interactive,
            final(self).env.verif_bruns@ == old(self).env.verif_bruns@, final(self).env.verif_keep_redirs@ == old(self).env.verif_keep_redirs@, final(self).env.exit_status == old(self).env.exit_status,
            final(self).env.verif_runs@ == old(self).env.verif_runs@, final(self).env.verif_acalls@ == old(self).env.verif_acalls@,
            final(self).env.verif_started@ == old(self).env.verif_started@, final(self).env.verif_handled@ == old(self).env.verif_handled@,
            final(self).env.verif_not_found@ == old(self).env.verif_not_found@
    { unimplemented!() }
}
impl RedirError {
    /// handle.rs (unit errhandle): reports, sets `$?`, lets the caller go on
    #[verifier::external_body]
    pub fn handle<S>(&self, env: &mut Env<S>) -> (r: Result)
        ensures same_place(*final(env), *old(env)), final(env).verif_handled@ == old(env).verif_handled@ + 1, final(env).verif_bruns@ == old(env).verif_bruns@, final(env).verif_keep_redirs@ == old(env).verif_keep_redirs@,
            final(env).verif_runs@ == old(env).verif_runs@, final(env).verif_rcalls@ == old(env).verif_rcalls@, final(env).verif_acalls@ == old(env).verif_acalls@,
            final(env).verif_started@ == old(env).verif_started@, final(env).verif_not_found@ == old(env).verif_not_found@
    { unimplemented!() }
}
/// simple_command.rs perform_assignments (unit simplecmd): opaque here, what was in place is recorded
#[verifier::external_body]
pub fn perform_assignments<S>(env: &mut Env<S>, assigns: &[Assign], export: bool, xtrace: Option<&mut XTrace>) -> (r: Result<Option<ExitStatus>>)
    ensures same_place(*final(env), *old(env)), final(env).verif_bruns@ == old(env).verif_bruns@, final(env).verif_keep_redirs@ == old(env).verif_keep_redirs@, final(env).exit_status == old(env).exit_status,
        final(env).verif_acalls@ == old(env).verif_acalls@.push(ACall { contexts: old(env).verif_contexts@, redirs: old(env).verif_redirs@, export, ids: assign_ids(assigns@), ok: r is Continue }),
        final(env).verif_runs@ == old(env).verif_runs@, final(env).verif_rcalls@ == old(env).verif_rcalls@,
        final(env).verif_started@ == old(env).verif_started@, final(env).verif_handled@ == old(env).verif_handled@, final(env).verif_not_found@ == old(env).verif_not_found@
{ unimplemented!() }

// ---- builtin.rs ----
pub struct Location { pub verif_opaque: u8 }
pub struct SigNumber(pub i32);
pub trait Runtime { const SIGINT: SigNumber; }
impl From<SigNumber> for ExitStatus {
    #[verifier::external_body]
    fn from(n: SigNumber) -> (e: ExitStatus) { unimplemented!() }
}
impl vstd::std_specs::cmp::PartialEqSpecImpl for Type {
    open spec fn obeys_eq_spec() -> bool { true }
    open spec fn eq_spec(&self, other: &Type) -> bool { *self == *other }
}
pub struct Builtin<S> { pub verif_type: Type, pub handles_signals_internally: bool, pub verif_id: int, pub verif_s: core::marker::PhantomData<S> }
pub enum Availability { Available, NotPortable }
pub struct Unusable { pub verif_status: ExitStatus }
impl Unusable {
    #[verifier::external_body]
    pub fn exit_status(&self) -> (r: ExitStatus) ensures r == self.verif_status { unimplemented!() }
}
/// yash_env::builtin::Result: what a built-in answers
pub struct BuiltinResult { pub verif_exit_status: ExitStatus, pub verif_divert: Result, pub verif_retain: bool }
impl BuiltinResult {
    #[verifier::external_body]
    pub fn exit_status(&self) -> (r: ExitStatus) ensures r == self.verif_exit_status { unimplemented!() }
    #[verifier::external_body]
    pub fn divert(&self) -> (r: Result) ensures r == self.verif_divert { unimplemented!() }
    #[verifier::external_body]
    pub fn should_retain_redirs(&self) -> (r: bool) ensures r == self.verif_retain { unimplemented!() }
}
impl From<ExitStatus> for BuiltinResult {
    /// builtin.rs From<ExitStatus> for Result: that status, no divert, redirections not retained
    #[verifier::external_body]
    fn from(e: ExitStatus) -> (r: BuiltinResult) ensures r.verif_exit_status == e, r.verif_divert is Continue, !r.verif_retain { unimplemented!() }
}
/// a frame of the runtime stack pushed for a built-in: whether it is special
pub struct BFrame { pub is_special: bool, pub name_id: int }
/// one execution of a built-in: which, what was in place, what it was given, what it answered
pub struct BRun { pub builtin: int, pub contexts: Seq<Context>, pub redirs: Seq<int>, pub frames: Seq<BFrame>, pub fields: Seq<int>, pub result: BuiltinResult }
pub struct FrameBuiltin { pub name: Field, pub is_special: bool }
/// "the same environment" (Either::Left(&mut *env)): a guard that pushes nothing and pops nothing
#[verifier::external_body]
pub fn verif_same_context<'a, S>(env: &'a mut Env<S>) -> (g: EnvContextGuard<'a, S>)
    ensures *g.env == *old(env), *final(env) == *final(g.env)
{ unimplemented!() }
pub struct EnvFrameGuard<'a, S> { pub env: &'a mut Env<S> }
impl<S> Env<S> {
    /// Env::push_frame + the Drop impl of its guard (RAII ASSUMED as a whole; unit condframe verifies the destructor body)
    #[verifier::external_body]
    pub fn push_frame(&mut self, frame: FrameBuiltin) -> (g: EnvFrameGuard<'_, S>)
        ensures
            g.env.verif_frames@ == old(self).verif_frames@.push(BFrame { is_special: frame.is_special, name_id: frame.name.verif_id }),
            g.env.verif_contexts@ == old(self).verif_contexts@, g.env.verif_redirs@ == old(self).verif_redirs@, g.env.verif_interactive == old(self).verif_interactive,
            g.env.exit_status == old(self).exit_status, same_logs(*g.env, *old(self)),
            final(self).verif_frames@ == old(self).verif_frames@,
            final(self).verif_contexts@ == final(g.env).verif_contexts@, final(self).verif_redirs@ == final(g.env).verif_redirs@, final(self).verif_interactive == final(g.env).verif_interactive,
            final(self).exit_status == final(g.env).exit_status, same_logs(*final(self), *final(g.env))
    { unimplemented!() }
    #[verifier::external_body]
    pub fn is_interactive(&self) -> (r: bool) ensures r == self.verif_interactive { unimplemented!() }
    #[verifier::external_body]
    pub fn sigint_has_default_action(&self) -> (r: bool) { unimplemented!() }
}
impl<'e, S> RedirGuard<'e, S> {
    /// RedirGuard::preserve_redirs (unit redir): the backing copies are closed, the redirections stay
    #[verifier::external_body]
    pub fn preserve_redirs(&mut self)
        ensures mut_ref_future(final(self).env) == mut_ref_future(old(self).env),
            *final(self).env == (Env { verif_keep_redirs: Ghost(true), ..*old(self).env })
    { unimplemented!() }
}
/// search.rs resolve_builtin (unit cmdsearch): a look-up
#[verifier::external_body]
pub fn resolve_builtin<S>(env: &mut Env<S>, name: &String, verif_type: Type, availability: Availability) -> (r: std::result::Result<CString, Unusable>)
    ensures *final(env) == *old(env)
{ unimplemented!() }
/// `print_error(env, format!("cannot execute built-in utility {:?}", name.value).into(), error.to_string().into(), &name.origin)`
#[verifier::external_body]
pub fn verif_report_unusable<S>(env: &mut Env<S>, name: &Field, error: &Unusable)
    ensures *final(env) == (Env { verif_not_found: Ghost(old(env).verif_not_found@ + 1), ..*old(env) })
{ unimplemented!() }
/// `(builtin.execute)(env, fields)`: the built-in itself
#[verifier::external_body]
pub fn verif_run_builtin<S>(builtin: &Builtin<S>, env: &mut Env<S>, fields: Vec<Field>) -> (r: BuiltinResult)
    ensures same_place(*final(env), *old(env)),
        final(env).verif_bruns@ == old(env).verif_bruns@.push(BRun { builtin: builtin.verif_id, contexts: old(env).verif_contexts@, redirs: old(env).verif_redirs@, frames: old(env).verif_frames@, fields: field_ids(fields@), result: r }),
        final(env).verif_runs@ == old(env).verif_runs@, final(env).verif_rcalls@ == old(env).verif_rcalls@, final(env).verif_acalls@ == old(env).verif_acalls@, final(env).verif_started@ == old(env).verif_started@,
        final(env).verif_handled@ == old(env).verif_handled@, final(env).verif_not_found@ == old(env).verif_not_found@, final(env).verif_keep_redirs@ == old(env).verif_keep_redirs@
{ unimplemented!() }
/// the interruptible run of a built-in in an interactive shell: select between the built-in and SIGINT; the signals caught
/// meanwhile are marked as caught afterwards.  None: interrupted.  NOT under contract (one opaque helper).
#[verifier::external_body]
pub fn verif_run_interruptible<S>(builtin: &Builtin<S>, env: &mut Env<S>, fields: Vec<Field>) -> (r: Option<BuiltinResult>)
    ensures same_place(*final(env), *old(env)),
        final(env).verif_bruns@ == old(env).verif_bruns@.push(BRun { builtin: builtin.verif_id, contexts: old(env).verif_contexts@, redirs: old(env).verif_redirs@, frames: old(env).verif_frames@, fields: field_ids(fields@),
            result: match r { Some(x) => x, None => arbitrary() } }),
        final(env).verif_runs@ == old(env).verif_runs@, final(env).verif_rcalls@ == old(env).verif_rcalls@, final(env).verif_acalls@ == old(env).verif_acalls@, final(env).verif_started@ == old(env).verif_started@,
        final(env).verif_handled@ == old(env).verif_handled@, final(env).verif_not_found@ == old(env).verif_not_found@, final(env).verif_keep_redirs@ == old(env).verif_keep_redirs@
{ unimplemented!() }
