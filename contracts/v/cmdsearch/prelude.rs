// ---------------------------------------------------------------------------
// Prelude of unit cmdsearch (property C02, kernel): the command search of XCU 2.9.1.4
// (yash-env/src/semantics/command/search.rs: classify, search, resolve_builtin).
//
// Hand-written model text (ASSUMED): what the environment answers.  The real traits `ClassifyEnv` / `PathEnv` are
// extracted from the code; their methods get the ghost views below (an implementor obligation, not verified here):
// `builtin_of(name)`, `function_of(name)` are what the two look-ups answer for a name, `path_hit(name)` is the
// outcome of walking $PATH for the name (search_path: a chain of iterator adapters over strings, external_body).
// Strings are only handed on: `has_slash(name)` stands for `name.contains('/')`.
// ---------------------------------------------------------------------------
pub struct CString { pub verif_id: int }
impl CString {
    /// `CString::default()`: the empty string
    pub open spec fn empty() -> CString { CString { verif_id: 0 } }
    #[verifier::external_body]
    pub fn default() -> (r: CString) ensures r == CString::empty() { unimplemented!() }
    /// `CString::new(name)`: the name itself as a C string, or an error if it has an interior NUL
    #[verifier::external_body]
    pub fn new(s: &str) -> (r: Result<CString, NulError>) ensures r matches Ok(c) ==> c == cstring_of(s) { unimplemented!() }
}
pub struct NulError { pub verif_opaque: u8 }
pub uninterp spec fn cstring_of(s: &str) -> CString;
pub uninterp spec fn has_slash(s: &str) -> bool;
/// ASSUMED: `name.contains('/')`
#[verifier::external_body]
pub fn verif_contains_slash(name: &str) -> (r: bool) ensures r == has_slash(name) { name.contains('/') }

/// what a built-in is, reduced to what the search looks at (the real struct also holds the entry point)
pub struct Builtin<S> { pub verif_type: Type, pub verif_id: int, pub verif_s: core::marker::PhantomData<S> }
impl<S> Clone for Builtin<S> { #[verifier::external_body] fn clone(&self) -> (r: Self) ensures r == *self { unimplemented!() } }
impl<S> Copy for Builtin<S> {}
pub struct Function<S> { pub verif_id: int, pub verif_s: core::marker::PhantomData<S> }

impl vstd::std_specs::cmp::PartialEqSpecImpl for Type {
    open spec fn obeys_eq_spec() -> bool { true }
    open spec fn eq_spec(&self, other: &Type) -> bool { *self == *other }
}

// `impl From<Rc<Function<S>>> for Target<S>` and `impl From<Unusable> for Error` of the code are extracted below with
// these specifications
impl<S> vstd::std_specs::convert::FromSpecImpl<Rc<Function<S>>> for Target<S> {
    open spec fn obeys_from_spec() -> bool { true }
    open spec fn from_spec(f: Rc<Function<S>>) -> Target<S> { Target::Function(f) }
}
impl vstd::std_specs::convert::FromSpecImpl<Unusable> for Error {
    open spec fn obeys_from_spec() -> bool { true }
    open spec fn from_spec(u: Unusable) -> Error { Error::Unusable(u) }
}

/// walking $PATH for an executable file of that name (iterator adapters over strings: ASSUMED, not verified)
#[verifier::external_body]
pub fn search_path<E: PathEnv>(env: &mut E, name: &str) -> (r: Option<CString>)
    ensures r == old(env).path_hit(name), *final(env) == *old(env)
{ unimplemented!() }

/// XCU 2.9.1.4 "Command Search and Execution", as a function of what the environment answers for the name:
/// (1) a name with a slash is a path; otherwise (a) a special built-in, (b)+(c) a function, (d)+(e) any other built-in
/// the shell has, (e) a utility found in $PATH.
pub enum Kind { Special, Function, OtherBuiltin, External }
pub open spec fn posix_kind<S>(slash: bool, b: Option<(Builtin<S>, Availability)>, f: bool) -> Kind {
    if slash { Kind::External }
    else if b is Some && (b->0).0.verif_type == Type::Special { Kind::Special }
    else if f { Kind::Function }
    else if b is Some { Kind::OtherBuiltin }
    else { Kind::External }
}
