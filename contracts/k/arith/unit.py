UNIT = {
    'name': 'arith',
    'property': 'C03',
    'crate': 'yash-arith',
    'cfg': [],
    'inject': [('yash-arith/src/eval.rs', 'harness.rs')],
    'anchors': [
        ('yash-arith/src/eval.rs', r'fn binary_result<E1, E2>\('),
        ('yash-arith/src/token.rs', r'pub\(crate\) fn parse_integer_constant\(token: &str\)'),
        ('yash-arith/src/eval.rs', r'fn expand_variable<E: Env>\('),
    ],
    'functions': [
        {'file': 'yash-arith/src/eval.rs', 'item': 'binary_result (23 non-multiplicative operator variants, full i64 x i64)'},
        {'file': 'yash-arith/src/eval.rs', 'item': 'expand_variable / parse_variable_value against parse_integer_constant (constant-like texts of <= 2 characters quick, 3 thorough)'},
    ],
    'harnesses': {'quick': ['c03q_', 'c03x_'], 'thorough': ['c03t_']},
    'min_harnesses': {'quick': 7, 'thorough': 8},
    'control_re': r'^c03x_',
    'complete_re': r'^c03q_binres_',
    'bound': 'binary_result harnesses are loop-free over all i64 x i64 (complete); constant agreement: every constant-like text of <= 2 (quick) / 3 (thorough) characters over the alphabet 0 1 7 8 9 a f x X _',
    'jobs': {'quick': 6, 'thorough': 7},
    'harness_timeout': '1500s',
    'timeout_s': {'quick': 1800, 'thorough': 3600},
    'assumptions': [
        'the error type parameters of binary_result are instantiated with ()',
        'the i128 reference in contracts/k/arith/harness.rs states C semantics of the non-multiplicative operators (bitwise operators on the two\'s complement representation, >> arithmetic)',
    ],
}
