// ---------------------------------------------------------------------------
// Prelude of unit funcall (properties C02 / C16, kernel): calling a function
// (yash-semantics/src/command/simple_command/function.rs execute_function_body).
// C02 "`return` leaves only the innermost function": a Return divert that comes out of the body ends THIS call -
// the caller goes on normally, with the exit status the return carried - and every other divert (break / continue
// beyond the function, exit, interrupt) is handed on unchanged.  C16 "locals and a function's positional parameters
// vanish at return": the body runs in a regular variable context of its own whose positional parameters are the
// fields of the call, pushed on top of what the caller had and gone afterwards.
//
// Hand-written model text (ASSUMED): executing the body is an opaque call that records the stack of variable contexts
// it ran with; RAII of the context guard is assumed in the contract of Env::push_context (Verus does not model
// destructors): while the guard lives the context is on top; when it goes away the topmost context has been popped and
// the rest is as the guard left it.  Await points are dropped.
// ---------------------------------------------------------------------------
pub struct ExitStatus(pub i32);
pub enum Divert { Continue { count: usize }, Break { count: usize }, Return(Option<ExitStatus>), Interrupt(Option<ExitStatus>), Exit(Option<ExitStatus>), Abort(Option<ExitStatus>) }
pub type Result<T = ()> = ControlFlow<Divert, T>;
pub struct Field { pub verif_id: int }
pub struct PositionalParams { pub verif_fields: Seq<int> }
impl PositionalParams {
    #[verifier::external_body]
    pub fn from_fields(fields: Vec<Field>) -> (r: PositionalParams)
        ensures r.verif_fields == Seq::new(fields@.len(), |i: int| fields@[i].verif_id)
    { unimplemented!() }
}
pub enum Context { Regular { positional_params: PositionalParams }, Volatile }
pub struct Body { pub verif_id: int }
pub struct Function<S> { pub body: Rc<Body>, pub verif_s: core::marker::PhantomData<S> }
/// what the body ran with
pub struct BodyRun { pub contexts: Seq<Context>, pub result: Result, pub status_after: ExitStatus }
pub struct Env<S> { pub exit_status: ExitStatus, pub verif_contexts: Ghost<Seq<Context>>, pub verif_runs: Ghost<Seq<BodyRun>>, pub system: S }
pub struct EnvContextGuard<'a, S> { pub env: &'a mut Env<S> }
impl<S> Env<S> {
    /// yash-env/src/variable/guard.rs Env::push_context + the Drop impl of the guard (ASSUMED as a whole, see above)
    #[verifier::external_body]
    pub fn push_context(&mut self, context: Context) -> (g: EnvContextGuard<'_, S>)
        ensures
            g.env.verif_contexts@ == old(self).verif_contexts@.push(context), g.env.exit_status == old(self).exit_status, g.env.verif_runs@ == old(self).verif_runs@,
            final(self).verif_contexts@.len() + 1 == final(g.env).verif_contexts@.len(),
            forall|i: int| 0 <= i < final(self).verif_contexts@.len() ==> #[trigger] final(self).verif_contexts@[i] == final(g.env).verif_contexts@[i],
            final(self).exit_status == final(g.env).exit_status, final(self).verif_runs@ == final(g.env).verif_runs@
    { unimplemented!() }
}
impl Body {
    #[verifier::external_body]
    pub fn execute<S>(&self, env: &mut Env<S>) -> (r: Result)
        ensures final(env).verif_runs@ == old(env).verif_runs@.push(BodyRun { contexts: old(env).verif_contexts@, result: r, status_after: final(env).exit_status }),
            final(env).verif_contexts@ == old(env).verif_contexts@
    { unimplemented!() }
}
/// the hook some callers pass to prepare the environment (a function pointer returning a boxed future in the code)
pub struct EnvPrepHook<S> { pub verif_s: core::marker::PhantomData<S> }
impl<S> EnvPrepHook<S> {
    #[verifier::external_body]
    pub fn call(&self, env: &mut Env<S>)
        ensures final(env).verif_contexts@ == old(env).verif_contexts@, final(env).verif_runs@ == old(env).verif_runs@
    { unimplemented!() }
}
