UNIT = {
    'name': 'lexclass',
    'property': 'C07',
    'crate': 'yash-syntax',
    'cfg': [],
    'inject': [('yash-syntax/src/parser/lex/op.rs', 'harness.rs')],
    'anchors': [
        ('yash-syntax/src/parser/lex/op.rs', r'pub fn is_operator_char\(c: char\) -> bool'),
        ('yash-syntax/src/parser/lex/core.rs', r'pub fn is_blank\(c: char\) -> bool'),
    ],
    'functions': [
        {'file': 'yash-syntax/src/parser/lex/op.rs', 'item': 'is_operator_char (every char)'},
        {'file': 'yash-syntax/src/parser/lex/core.rs', 'item': 'is_blank (every char)'},
    ],
    'harnesses': {'quick': ['c07q_'], 'thorough': []},
    'min_harnesses': {'quick': 2, 'thorough': 2},
    'control_re': r'^c07x_',
    'complete_re': r'^c07q_',
    'bound': 'complete over every char',
    'jobs': {'quick': 2, 'thorough': 2},
    'harness_timeout': '1200s',
    'timeout_s': {'quick': 1500, 'thorough': 1500},
    'assumptions': [],
}
