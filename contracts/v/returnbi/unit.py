# Unit returnbi: the `return` built-in (kernel of property C02).
SEM = 'yash-env/src/semantics.rs'
BI = 'yash-env/src/builtin.rs'
RT = 'yash-builtin/src/return.rs'
MOD_HEAD = '''    use vstd::prelude::*;
    use std::ops::ControlFlow::{self, Break};
    use std::ffi::c_int;
'''
OPS = 'args_operands(args@)'
UNIT = {
    'name': 'returnbi',
    'property': 'C02',
    'rlimit': 60,
    'verus_args': ['--edition=2024'],
    'vacuity_floor': 2,
    'items': [
        ('@raw', 'pub mod semantics { pub type Result<T = ()> = std::ops::ControlFlow<crate::rb::Divert, T>; }\npub use rb::builtin::Result;\n'),
        ('@raw', 'pub mod rb {\n' + MOD_HEAD),
        (SEM, ['struct ExitStatus']),
        (SEM, ['impl ExitStatus#1', 'const SUCCESS']), (SEM, ['impl ExitStatus#1', 'const FAILURE']), (SEM, ['impl ExitStatus#1', 'const ERROR']),
        (SEM, ['enum Divert']),
        ('@raw', 'pub mod builtin {\n    use super::*;\n'),
        (BI, ['struct Result'], {'pub_fields': True}),
        (BI, ['impl Result', 'fn new'], {'ret': 'r', 'ensures': ['r.exit_status == exit_status', 'r.divert == ControlFlow::<Divert, ()>::Continue(())']}),
        (BI, ['impl Result', 'fn with_exit_status_and_divert'], {'ret': 'r', 'ensures': ['r.exit_status == exit_status', 'r.divert == divert']}),
        ('@raw', '}\n    pub use builtin::Result;\n'),
        ('@file', 'prelude.rs'),
        (RT, ['fn main'], {'ret': 'r', 'rewrites': ['strip-async'],
            'attrs': ['#[verifier::loop_isolation(false)]'],
            'token_rewrites': [
                ('for option in options', 'for option in verif_it: options'),
                ('unreachable ! ( "parse_arguments() returned an unknown option" )', 'verif_unreachable()'),
                ('operands . get ( 1 )', 'verif_get(&operands, 1)'),
                ('operands . first ( )', 'verif_get(&operands, 0)'),
                ('arg . value . parse ( )', 'verif_parse_i32(&arg.value)'),
            ],
            'ensures': [
                # `$?` is left alone by the built-in itself
                'final(env).exit_status == old(env).exit_status',
                # a well-formed call without -n: return from the innermost function, with the operand as the status to return
                # with; without an operand the status to return with is `$?`, so the built-in\'s own status must be the current `$?`
                'args_parse_ok(args@) && !args_no_return(args@) && ' + OPS + '.len() == 0 ==> r.divert == ControlFlow::<Divert, ()>::Break(Divert::Return(None)) && r.exit_status == old(env).exit_status',
                'args_parse_ok(args@) && !args_no_return(args@) && ' + OPS + '.len() == 1 && (parsed(' + OPS + '[0].value) matches Ok(n) && n >= 0) ==> r.divert == ControlFlow::<Divert, ()>::Break(Divert::Return(Some(ExitStatus(parsed(' + OPS + '[0].value)->Ok_0))))',
                # with -n nothing is left: the operand (or the current `$?`) only becomes the status
                'args_parse_ok(args@) && args_no_return(args@) && ' + OPS + '.len() == 0 ==> r.divert is Continue && r.exit_status == old(env).exit_status',
                'args_parse_ok(args@) && args_no_return(args@) && ' + OPS + '.len() == 1 && (parsed(' + OPS + '[0].value) matches Ok(n) && n >= 0) ==> r.divert is Continue && r.exit_status == ExitStatus(parsed(' + OPS + '[0].value)->Ok_0)',
                # a Return divert is asked for in no other case, and every other case is an error reported once
                'r.divert matches ControlFlow::Break(Divert::Return(_)) ==> final(env).verif_errors@ == old(env).verif_errors@',
                'final(env).verif_errors@ <= old(env).verif_errors@ + 1',
                'final(env).verif_errors@ == old(env).verif_errors@ + 1 ==> error_result(r)',
                '!args_parse_ok(args@) ==> final(env).verif_errors@ == old(env).verif_errors@ + 1',
                # a negative or non-numeric operand is an error
                'args_parse_ok(args@) && ' + OPS + '.len() == 1 && !(parsed(' + OPS + '[0].value) matches Ok(n) && n >= 0) ==> final(env).verif_errors@ == old(env).verif_errors@ + 1',
                'args_parse_ok(args@) && ' + OPS + '.len() > 1 ==> final(env).verif_errors@ == old(env).verif_errors@ + 1',
            ],
            'loops': {0: {'invariant': [
                'no_return == (verif_it.index() > 0)', 'env.exit_status == old(env).exit_status', 'env.verif_errors@ == old(env).verif_errors@',
            ]}},
            }),
        ('@raw', '}\n'),
    ],
}
