// ---------------------------------------------------------------------------
// Prelude of unit paramexp (property C01, kernel): how one parameter expansion is put together
// (yash-semantics/src/expansion/initial/param.rs, `impl Expand for ParamRef`).
// C01 "each parameter-expansion form selects the documented value ... With `nounset`, an unset parameter is an error exactly
// where POSIX says so ... `$@`/`$*` quoted or not follow their special rules": the parameter is resolved once; a switch
// modifier (`-` `=` `?` `+`) is consulted once with the resolved value and, when it answers, its answer is the expansion -
// and then, and only then, an unset parameter under nounset is NOT an error (XCU 2.5.3 / set -u); without a switch an unset
// parameter under nounset is the error UnsetParameter and nothing else happens; `${#x}` turns the value - every element of an
// array - into its length, an unset one into 0; a trim modifier is applied once to a set value; the result of `$*` in a
// non-splitting context is ONE field joined with the first character of IFS, in every other case the fields of the value.
//
// Hand-written model text (ASSUMED): resolve (unit-level lookup), switch::apply (unit switch has its table), trim::apply, the length
// of a string, the conversion of a value into a phrase and Phrase::ifs_join (unit phrase) are opaque calls / helpers over
// an event log and uninterpreted functions; values and phrases are identities.  Await points dropped.
// ---------------------------------------------------------------------------
pub trait Runtime {}
#[derive(Clone)]
pub struct Location { pub verif_opaque: u8 }
#[derive(Clone)]
pub struct Param { pub verif_id: int, pub verif_type: ParamType }
#[derive(Clone, Copy, PartialEq, Eq)]
pub enum SpecialParam { Asterisk, At, Other(u8) }
#[derive(Clone, Copy, PartialEq, Eq)]
pub enum ParamType { Variable, Special(SpecialParam), Positional(usize) }
impl vstd::std_specs::cmp::PartialEqSpecImpl for ParamType {
    open spec fn obeys_eq_spec() -> bool { true }
    open spec fn eq_spec(&self, other: &ParamType) -> bool { *self == *other }
}
impl vstd::std_specs::cmp::PartialEqSpecImpl for State {
    open spec fn obeys_eq_spec() -> bool { true }
    open spec fn eq_spec(&self, other: &State) -> bool { *self == *other }
}
pub struct Switch { pub verif_id: int }
pub struct Trim { pub verif_id: int }
pub enum Modifier { None, Length, Switch(Switch), Trim(Trim) }
/// a value, reduced to an identity (what it is is decided by uninterpreted functions)
pub struct Value { pub verif_v: int }
pub struct Phrase { pub verif_p: int }
pub struct Fields { pub verif_f: int }
pub enum ErrorCause { UnsetParameter { param: Param }, Other(u8) }
pub struct Error { pub cause: ErrorCause, pub location: Location }
pub enum ShellOption { Unset, Other(u8) }
pub use ShellOption::Unset;
pub struct OptionSet { pub verif_nounset: bool }
impl OptionSet {
    #[verifier::external_body]
    pub fn get(&self, o: ShellOption) -> (r: State) ensures o is Unset ==> (r == State::Off <==> self.verif_nounset) { unimplemented!() }
}
pub struct VariableSet { pub verif_ifs: int }
pub struct InnerEnv<S> { pub options: OptionSet, pub variables: VariableSet, pub system: S }
pub enum Ev { Resolved { param: int, value: Option<int> }, SwitchApplied { switch: int, param: int, value: Option<int>, answered: bool }, Trimmed { trim: int, before: int, after: int, ok: bool } }
pub struct Env<'a, S> { pub inner: &'a mut InnerEnv<S>, pub will_split: bool, pub log: Ghost<Seq<Ev>> }
pub trait Expand<S> { fn expand(&self, env: &mut Env<'_, S>) -> Result<Phrase, Error>; }
pub uninterp spec fn length_of(v: int) -> int;
pub uninterp spec fn zero_value() -> int;
pub uninterp spec fn phrase_of(v: Option<int>) -> int;
pub uninterp spec fn joined(p: int, ifs: int) -> int;
/// `resolve::resolve(env.inner, self.param, self.location).into_owned()`
#[verifier::external_body]
pub fn verif_resolve<S>(env: &mut Env<'_, S>, param: &Param, location: &Location) -> (r: Option<Value>)
    ensures final(env).log@ == old(env).log@.push(Ev::Resolved { param: param.verif_id, value: match r { Some(v) => Some(v.verif_v), None => None } }),
        final(env).will_split == old(env).will_split, *final(env).inner == *old(env).inner, mut_ref_future(final(env).inner) == mut_ref_future(old(env).inner)
{ unimplemented!() }
pub mod switch {
    use super::*;
    /// param/switch.rs apply (unit switch has the unset-or-null table)
    #[verifier::external_body]
    pub fn apply<S>(env: &mut Env<'_, S>, switch: &Switch, param: &Param, value: Option<&Value>, location: &Location) -> (r: Option<Result<Phrase, Error>>)
        ensures final(env).log@ == old(env).log@.push(Ev::SwitchApplied { switch: switch.verif_id, param: param.verif_id, value: match value { Some(v) => Some(v.verif_v), None => None }, answered: r is Some }),
            final(env).will_split == old(env).will_split, *final(env).inner == *old(env).inner, mut_ref_future(final(env).inner) == mut_ref_future(old(env).inner)
    { unimplemented!() }
}
pub mod trim {
    use super::*;
    #[verifier::external_body]
    pub fn apply<S>(env: &mut Env<'_, S>, trim: &Trim, value: &mut Value) -> (r: Result<(), Error>)
        ensures final(env).log@ == old(env).log@.push(Ev::Trimmed { trim: trim.verif_id, before: old(value).verif_v, after: final(value).verif_v, ok: r is Ok }),
            final(env).will_split == old(env).will_split, *final(env).inner == *old(env).inner, mut_ref_future(final(env).inner) == mut_ref_future(old(env).inner)
    { unimplemented!() }
}
/// the Length arm: `None => value = Some(Value::scalar("0")), Some(Scalar(v)) => to_length(v), Some(Array(vs)) => vs.iter_mut().for_each(to_length)`
#[verifier::external_body]
pub fn verif_to_lengths(value: &mut Option<Value>)
    ensures *final(value) matches Some(v) && v.verif_v == (match *old(value) { Some(o) => length_of(o.verif_v), None => zero_value() })
{ unimplemented!() }
#[verifier::external_body]
pub fn into_phrase(value: Option<Value>) -> (r: Phrase) ensures r.verif_p == phrase_of(match value { Some(v) => Some(v.verif_v), None => None }) { unimplemented!() }
impl Phrase {
    /// expansion/phrase.rs Phrase::ifs_join (unit phrase)
    #[verifier::external_body]
    pub fn ifs_join(&self, variables: &VariableSet) -> (r: Fields) ensures r.verif_f == joined(self.verif_p, variables.verif_ifs) { unimplemented!() }
    #[verifier::external_body]
    pub fn Field(f: Fields) -> (r: Phrase) ensures r.verif_p == f.verif_f { unimplemented!() }
}
#[verifier::external_body]
pub fn verif_as_ref(v: &Option<Value>) -> (r: Option<&Value>) ensures r == (match v { Some(x) => Some(x), None => None }) { v.as_ref() }
