// ---------------------------------------------------------------------------
// Prelude of unit fifo (assumed contracts on std container functions that vstd does not specify).
// ---------------------------------------------------------------------------

/// the elements an `IntoIterator` argument yields, in order (meaning of the argument of `extend`)
pub uninterp spec fn yielded<'a, T, I>(i: I) -> Seq<T>;
/// ASSUMED: a shared slice yields its elements in order
pub broadcast axiom fn axiom_yielded_slice<'a, T: Copy>(s: &'a [T])
    ensures #[trigger] yielded::<T, &'a [T]>(s) == s@;

pub assume_specification<'a, T: Copy + 'a, A: std::alloc::Allocator, I: IntoIterator<Item = &'a T>>[ <Vec<T, A> as Extend<&'a T>>::extend ](v: &mut Vec<T, A>, i: I)
    ensures final(v)@ == old(v)@ + yielded::<T, I>(i);

pub assume_specification<'a, T: Copy + 'a, A: std::alloc::Allocator, I: IntoIterator<Item = &'a T>>[ <VecDeque<T, A> as Extend<&'a T>>::extend ](v: &mut VecDeque<T, A>, i: I)
    ensures final(v)@ == old(v)@ + yielded::<T, I>(i);

pub assume_specification<T, A: std::alloc::Allocator>[ VecDeque::<T, A>::reserve_exact ](v: &mut VecDeque<T, A>, additional: usize)
    ensures final(v)@ == old(v)@;

/// ASSUMED contract of `Vec::resize_with`: truncation, or extension with values produced by `f`
pub assume_specification<T, A: std::alloc::Allocator, F: FnMut() -> T>[ Vec::<T, A>::resize_with ](v: &mut Vec<T, A>, new_len: usize, f: F)
    requires call_requires(f, ()),
    ensures
        final(v)@.len() == new_len,
        forall|k: int| 0 <= k < new_len && k < old(v)@.len() ==> final(v)@[k] == old(v)@[k],
        forall|k: int| old(v)@.len() <= k < new_len ==> call_ensures(f, (), #[trigger] final(v)@[k]);

pub assume_specification<T, A: std::alloc::Allocator>[ VecDeque::<T, A>::is_empty ](v: &VecDeque<T, A>) -> (b: bool)
    ensures b == (v@.len() == 0);
