#!/bin/sh
# usage: trydiff.sh <property> <diff> [tier]   -- apply a diff to /repo, run the check, restore /repo (evidence goes to a scratch dir)
P=$1; D=$2; T=${3:-quick}
cd /repo || exit 3
git diff --quiet || { echo "/repo is dirty"; exit 3; }
git apply "$D" || { echo "patch does not apply"; exit 3; }
VERIF_EVIDENCE_DIR=/tmp/seed_evidence /verif/bin/vcheck $P --tier $T 2>&1 | grep -E "VIOLATION|UNDECIDED|KNOWN|PASS|exit|NOTE" | cut -c1-400
echo "rc=$?"
git checkout -- .
