// ---------------------------------------------------------------------------
// Prelude of unit aliaselig (property C17, kernel): which token is replaced by an alias
// (yash-syntax/src/parser/core.rs Parser::substitute_alias) and the recursion guard
// (yash-env/src/source.rs Source::is_alias_for).
//
// Hand-written model text (ASSUMED): the glossary of aliases as a ghost map name -> alias; the lexer reduced to the two
// calls the parser makes (is_after_blank_ending_alias: uninterpreted answer; substitute_alias: recorded in a ghost
// log); a word reduced to "the text it is if it is an unquoted literal, and where it came from".  Strings are compared
// by their characters (String@).
// ---------------------------------------------------------------------------
pub struct Keyword { pub verif_opaque: u8 }
pub struct Operator { pub verif_opaque: u8 }
impl Clone for Keyword { #[verifier::external_body] fn clone(&self) -> (r: Self) ensures r == *self { unimplemented!() } }
impl Copy for Keyword {}
impl Clone for Operator { #[verifier::external_body] fn clone(&self) -> (r: Self) ensures r == *self { unimplemented!() } }
impl Copy for Operator {}

/// a source location, reduced to the code fragment it points into (the real struct also has a byte range)
pub struct Location { pub code: Rc<Code> }
/// a code fragment, reduced to where it came from (the real struct also holds the text and a line number)
pub struct Code { pub source: Rc<Source> }
/// where a code fragment came from: typed by the user one way or another, or the replacement text of an alias that was
/// substituted for a word at `original` (the real enum has twelve more variants without an alias; they all behave as
/// `Other` here)
pub enum Source {
    Other,
    Alias { original: Location, alias: Rc<Alias> },
}
pub struct Alias { pub name: String, pub replacement: String, pub global: bool, pub origin: Location }

/// "a name is not substituted again within its own replacement": the name is among the aliases whose replacement text
/// this code is (directly, or because the alias word itself came out of another alias's replacement, and so on)
pub open spec fn in_alias_chain(src: Source, name: Seq<char>) -> bool
    decreases src
{
    match src {
        Source::Alias { original, alias } => alias.name@ == name || in_alias_chain(*original.code.source, name),
        Source::Other => false,
    }
}
/// `alias.name == name` (String == &str): comparison of the characters (ASSUMED)
#[verifier::external_body]
pub fn verif_name_eq(a: &String, b: &str) -> (r: bool) ensures r == (a@ == b@) { a == b }

/// the real `Option::is_some_and` (ASSUMED contract)
pub assume_specification<T, F: FnOnce(T) -> bool>[ Option::<T>::is_some_and ](o: Option<T>, f: F) -> (b: bool)
    requires o matches Some(v) ==> f.requires((v,)),
    ensures o is None ==> !b, o matches Some(v) ==> f.ensures((v,), b);

/// a word, reduced to what alias substitution asks of it
pub struct Word { pub location: Location, pub verif_literal: Option<String> }
impl Word {
    /// the text of the word if it consists of unquoted literal characters only (yash-syntax MaybeLiteral; ASSUMED)
    pub open spec fn literal(&self) -> Option<Seq<char>> { match self.verif_literal { Some(s) => Some(s@), None => None } }
    #[verifier::external_body]
    pub fn to_string_if_literal(&self) -> (r: Option<String>)
        ensures r is Some == self.literal() is Some, r matches Some(s) ==> s@ == self.literal()->0
    { unimplemented!() }
}

pub trait Glossary {
    spec fn aliases(&self) -> Map<Seq<char>, Rc<Alias>>;
    fn look_up(&self, name: &str) -> (r: Option<Rc<Alias>>)
        ensures r == (if self.aliases().contains_key(name@) { Some(self.aliases()[name@]) } else { None::<Rc<Alias>> });
    fn is_empty(&self) -> (r: bool)
        ensures r ==> self.aliases() =~= Map::<Seq<char>, Rc<Alias>>::empty();
}
/// a character of the line buffer with where it came from (the real SourceChar / SourceCharEx; lifted below)
pub struct SourceChar { pub value: char, pub location: Location }
/// the lexer core, reduced to its line buffer (the real struct also holds the input object, the read position, ...)
pub struct LexerCore<'a> { pub source: Vec<SourceCharEx>, pub verif_a: core::marker::PhantomData<&'a u8> }
pub uninterp spec fn blank(c: char) -> bool;
/// `c != '\n' && c.is_whitespace()` (std; ASSUMED uninterpreted)
#[verifier::external_body]
pub fn is_blank(c: char) -> (r: bool) ensures r == blank(c) { unimplemented!() }
/// the last character of the text is a blank (string iteration; ASSUMED)
pub uninterp spec fn text_ends_with_blank(s: Seq<char>) -> bool;

/// "following an alias value that ends with a blank", over the line buffer: going back from the token over blanks and
/// line continuations only, one reaches the LAST character of the replacement text of an alias whose value ends with a
/// blank (the character after it no longer comes from that alias)
pub open spec fn blankish(sc: SourceCharEx) -> bool { sc.is_line_continuation || blank(sc.value.value) }
pub open spec fn alias_value_ends_at(src: Seq<SourceCharEx>, k: int) -> bool {
    &&& 0 <= k < src.len()
    &&& *src[k].value.location.code.source matches Source::Alias { original, alias }
    &&& text_ends_with_blank(alias.replacement@)
    &&& !(k + 1 < src.len() && in_alias_chain(*src[k + 1].value.location.code.source, alias.name@))
}
pub open spec fn after_blank_ending(src: Seq<SourceCharEx>, index: int) -> bool {
    exists|k: int| 0 <= k < index && k < src.len() && (forall|j: int| k <= j < index ==> blankish(#[trigger] src[j])) && alias_value_ends_at(src, k)
}

pub struct Lexer<'b> { pub core: LexerCore<'b>, pub verif_log: Ghost<Seq<(usize, Rc<Alias>)>> }
impl<'b> Lexer<'b> {
    pub open spec fn after_blank_ending_alias(&self, index: usize) -> bool { after_blank_ending(self.core.source@, index as int) }
    /// the in-place splice of the replacement text (LexerCore::substitute_alias): recorded, not modelled
    #[verifier::external_body]
    pub fn substitute_alias(&mut self, begin: usize, alias: &Rc<Alias>)
        ensures final(self).verif_log@ == old(self).verif_log@.push((begin, *alias))
    { unimplemented!() }
}
/// the parser, reduced to the two fields alias substitution uses (`aliases` is a `&dyn Glossary` in the code)
pub struct Parser<'a, 'b, G: Glossary> { pub lexer: &'a mut Lexer<'b>, pub aliases: &'a G }

/// C17, eligibility: "only an unquoted literal word in command position (or following an alias value that ends with a
/// blank, or naming a global alias) is replaced, a name is not substituted again within its own replacement"
pub open spec fn eligible<G: Glossary>(g: &G, lexer: &Lexer<'_>, token: Token, is_command_name: bool) -> bool {
    &&& token.id is Token
    &&& token.word.literal() is Some
    &&& !in_alias_chain(*token.word.location.code.source, token.word.literal()->0)
    &&& g.aliases().contains_key(token.word.literal()->0)
    &&& (is_command_name || g.aliases()[token.word.literal()->0].global || lexer.after_blank_ending_alias(token.index))
}
