// ---------------------------------------------------------------------------
// Prelude of unit arith_parse: the precedence-climbing parser of yash-arith against a reference
// grammar (C operator precedence and associativity, ISO C 6.5).
// ---------------------------------------------------------------------------

/// what `#[derive(thiserror::Error)]` with `#[from] TokenError` expands to
impl From<TokenError> for SyntaxError {
    fn from(e: TokenError) -> (r: SyntaxError)
        ensures r == SyntaxError::TokenError(e)
    {
        SyntaxError::TokenError(e)
    }
}
impl vstd::std_specs::convert::FromSpecImpl<TokenError> for SyntaxError {
    open spec fn obeys_from_spec() -> bool { true }
    open spec fn from_spec(e: TokenError) -> SyntaxError { SyntaxError::TokenError(e) }
}

pub use crate::token::{TokSeq, rest, wf_stream, is_end};

// ---- the C operator table (ISO C 6.5), as in unit arith_eval ---------------------------------
pub open spec fn c_level(op: Operator) -> int {
    match op {
        Operator::CloseParen | Operator::Colon => 0,
        Operator::Equal | Operator::BarEqual | Operator::CaretEqual | Operator::AndEqual
        | Operator::LessLessEqual | Operator::GreaterGreaterEqual | Operator::PlusEqual
        | Operator::MinusEqual | Operator::AsteriskEqual | Operator::SlashEqual | Operator::PercentEqual => 1,
        Operator::Question => 2,
        Operator::BarBar => 3,
        Operator::AndAnd => 4,
        Operator::Bar => 5,
        Operator::Caret => 6,
        Operator::And => 7,
        Operator::EqualEqual | Operator::BangEqual => 8,
        Operator::Less | Operator::LessEqual | Operator::Greater | Operator::GreaterEqual => 9,
        Operator::LessLess | Operator::GreaterGreater => 10,
        Operator::Plus | Operator::Minus => 11,
        Operator::Asterisk | Operator::Slash | Operator::Percent => 12,
        Operator::Tilde | Operator::Bang | Operator::PlusPlus | Operator::MinusMinus | Operator::OpenParen => 13,
    }
}

pub open spec fn c_binary(op: Operator) -> Option<(BinaryOperator, Associativity)> {
    match op {
        Operator::Equal => Some((BinaryOperator::Assign, Associativity::Right)),
        Operator::BarEqual => Some((BinaryOperator::BitwiseOrAssign, Associativity::Right)),
        Operator::CaretEqual => Some((BinaryOperator::BitwiseXorAssign, Associativity::Right)),
        Operator::AndEqual => Some((BinaryOperator::BitwiseAndAssign, Associativity::Right)),
        Operator::LessLessEqual => Some((BinaryOperator::ShiftLeftAssign, Associativity::Right)),
        Operator::GreaterGreaterEqual => Some((BinaryOperator::ShiftRightAssign, Associativity::Right)),
        Operator::PlusEqual => Some((BinaryOperator::AddAssign, Associativity::Right)),
        Operator::MinusEqual => Some((BinaryOperator::SubtractAssign, Associativity::Right)),
        Operator::AsteriskEqual => Some((BinaryOperator::MultiplyAssign, Associativity::Right)),
        Operator::SlashEqual => Some((BinaryOperator::DivideAssign, Associativity::Right)),
        Operator::PercentEqual => Some((BinaryOperator::RemainderAssign, Associativity::Right)),
        Operator::BarBar => Some((BinaryOperator::LogicalOr, Associativity::Left)),
        Operator::AndAnd => Some((BinaryOperator::LogicalAnd, Associativity::Left)),
        Operator::Bar => Some((BinaryOperator::BitwiseOr, Associativity::Left)),
        Operator::Caret => Some((BinaryOperator::BitwiseXor, Associativity::Left)),
        Operator::And => Some((BinaryOperator::BitwiseAnd, Associativity::Left)),
        Operator::EqualEqual => Some((BinaryOperator::EqualTo, Associativity::Left)),
        Operator::BangEqual => Some((BinaryOperator::NotEqualTo, Associativity::Left)),
        Operator::Less => Some((BinaryOperator::LessThan, Associativity::Left)),
        Operator::LessEqual => Some((BinaryOperator::LessThanOrEqualTo, Associativity::Left)),
        Operator::Greater => Some((BinaryOperator::GreaterThan, Associativity::Left)),
        Operator::GreaterEqual => Some((BinaryOperator::GreaterThanOrEqualTo, Associativity::Left)),
        Operator::LessLess => Some((BinaryOperator::ShiftLeft, Associativity::Left)),
        Operator::GreaterGreater => Some((BinaryOperator::ShiftRight, Associativity::Left)),
        Operator::Plus => Some((BinaryOperator::Add, Associativity::Left)),
        Operator::Minus => Some((BinaryOperator::Subtract, Associativity::Left)),
        Operator::Asterisk => Some((BinaryOperator::Multiply, Associativity::Left)),
        Operator::Slash => Some((BinaryOperator::Divide, Associativity::Left)),
        Operator::Percent => Some((BinaryOperator::Remainder, Associativity::Left)),
        _ => None,
    }
}

pub open spec fn c_prefix(op: Operator) -> Option<PrefixOperator> {
    match op {
        Operator::PlusPlus => Some(PrefixOperator::Increment),
        Operator::MinusMinus => Some(PrefixOperator::Decrement),
        Operator::Plus => Some(PrefixOperator::NumericCoercion),
        Operator::Minus => Some(PrefixOperator::NumericNegation),
        Operator::Bang => Some(PrefixOperator::LogicalNegation),
        Operator::Tilde => Some(PrefixOperator::BitwiseNegation),
        _ => None,
    }
}

pub open spec fn c_postfix(op: Operator) -> Option<PostfixOperator> {
    match op {
        Operator::PlusPlus => Some(PostfixOperator::Increment),
        Operator::MinusMinus => Some(PostfixOperator::Decrement),
        _ => None,
    }
}

// ---- reference parser: the expression grammar of ISO C 6.5 by precedence climbing.  It APPENDS the
// ---- reverse-Polish form of what it parses to `out` (operands first, then the operator node, which
// ---- records the lengths of its operand subtrees) and returns the input that is left.
pub open spec fn head_op(s: TokSeq) -> Option<Operator> {
    if s.len() > 0 && s[0] is Ok && s[0]->Ok_0.value is Operator { Some(s[0]->Ok_0.value->Operator_0) } else { None }
}
pub open spec fn head_loc(s: TokSeq) -> Range<usize> { s[0]->Ok_0.location }

/// postfix-expression suffixes: zero or more `++` / `--`
pub open spec fn r_postfix<'a>(s: TokSeq<'a>, out: Seq<Ast<'a>>) -> (Seq<Ast<'a>>, TokSeq<'a>)
    decreases s.len()
{
    match head_op(s) {
        Some(op) => match c_postfix(op) {
            Some(p) => r_postfix(s.drop_first(), out.push(Ast::Postfix { operator: p, location: head_loc(s) })),
            None => (out, s),
        },
        None => (out, s),
    }
}

/// unary-expression: a term or a parenthesized expression with postfix operators, or a prefix operator
/// applied to a unary-expression
pub open spec fn r_leaf<'a>(s: TokSeq<'a>, out: Seq<Ast<'a>>) -> (Option<Seq<Ast<'a>>>, TokSeq<'a>)
    decreases s.len(), 0int
{
    if s.len() == 0 || is_end(s[0]) { (None, s) } else {
        match s[0]->Ok_0.value {
            TokenValue::Term(t) => {
                let (o2, s2) = r_postfix(s.drop_first(), out.push(Ast::Term(t)));
                (Some(o2), s2)
            },
            TokenValue::Operator(Operator::OpenParen) => {
                let (x, s2) = r_tree(s.drop_first(), 1, out);
                if x is None || head_op(s2) != Some(Operator::CloseParen) { (None, s2) } else {
                    let (o3, s3) = r_postfix(s2.drop_first(), x->0);
                    (Some(o3), s3)
                }
            },
            TokenValue::Operator(op) => match c_prefix(op) {
                None => (None, s),
                Some(pop) => {
                    let (x, s2) = r_leaf(s.drop_first(), out);
                    if x is None { (None, s2) } else { (Some(x->0.push(Ast::Prefix { operator: pop, location: head_loc(s) })), s2) }
                },
            },
            TokenValue::EndOfInput => (None, s),
        }
    }
}

/// an expression whose binary/ternary operators all bind at least as tightly as `min`
pub open spec fn r_tree<'a>(s: TokSeq<'a>, min: int, out: Seq<Ast<'a>>) -> (Option<Seq<Ast<'a>>>, TokSeq<'a>)
    decreases s.len(), 2int
{
    let (x, s1) = r_leaf(s, out);
    if x is None { (None, s1) }
    else if s1.len() > s.len() { (None, s1) }   // never the case (the leaf consumes input); keeps the definition well-founded
    else { r_loop(x->0, s1, min) }
}

/// the operator loop of precedence climbing: the left operand has already been appended to `out`
pub open spec fn r_loop<'a>(out: Seq<Ast<'a>>, s: TokSeq<'a>, min: int) -> (Option<Seq<Ast<'a>>>, TokSeq<'a>)
    decreases s.len(), 1int
{
    match head_op(s) {
        None => (Some(out), s),
        Some(op) =>
            if c_level(op) < min { (Some(out), s) }
            else if op == Operator::Question {
                // conditional-expression: logical-OR-expression ? expression : conditional-expression
                let (then, s2) = r_tree(s.drop_first(), 1, out);
                if then is None || head_op(s2) != Some(Operator::Colon) || s2.len() >= s.len() { (None, s2) } else {
                    let (els, s3) = r_tree(s2.drop_first(), c_level(Operator::Question), then->0);
                    if els is None || s3.len() >= s.len() { (None, s3) } else {
                        r_loop(els->0.push(Ast::Conditional { then_len: (then->0.len() - out.len()) as usize, else_len: (els->0.len() - then->0.len()) as usize }), s3, min)
                    }
                }
            } else {
                match c_binary(op) {
                    None => (None, s),
                    Some((bop, assoc)) => {
                        // left-associative operators take a right operand that binds strictly tighter,
                        // right-associative ones (assignment) one that binds at least as tightly
                        let rp = if assoc == Associativity::Left { c_level(op) + 1 } else { c_level(op) };
                        let (rhs, s2) = r_tree(s.drop_first(), rp, out);
                        if rhs is None || s2.len() >= s.len() { (None, s2) } else {
                            r_loop(rhs->0.push(Ast::Binary { operator: bop, rhs_len: (rhs->0.len() - out.len()) as usize, location: head_loc(s) }), s2, min)
                        }
                    },
                }
            },
    }
}

/// what a parser function must deliver for the reference result `(x, s2)`
pub open spec fn parsed<'a>(x: Option<Seq<Ast<'a>>>, s2: TokSeq<'a>, res: Result<(), Error>, after: Seq<Ast<'a>>, toks_after: TokSeq<'a>) -> bool {
    match x {
        Some(v) => res is Ok && after == v && toks_after == s2,
        None => res is Err,
    }
}

impl vstd::std_specs::convert::FromSpecImpl<crate::token::Error> for Error {
    open spec fn obeys_from_spec() -> bool { false }
    open spec fn from_spec(e: crate::token::Error) -> Error { arbitrary() }
}
