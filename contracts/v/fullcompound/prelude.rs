// ---------------------------------------------------------------------------
// Prelude of unit fullcompound (properties C09 / C10, kernel): a compound command with redirections
// (yash-semantics/src/command/compound_command.rs FullCompoundCommand::execute and its helper perform_redirs).
// C09 "the redirections of a command affect exactly that command": they are performed first, all of them, once, under a
// guard that lives until the command is over; the command runs once with exactly those redirections in effect and
// afterwards the redirections in effect are the caller's.  C10: a failed redirection is reported once, the command does
// not run, and errexit is consulted (once) with the status the handler left.
//
// Hand-written model text (ASSUMED): RedirGuard::perform_redirs, executing the compound command, the error handler,
// apply_errexit, the tracer are opaque calls that update a ghost monitor in the reduced Env; RAII of the guard is assumed
// as a whole in the contract of RedirGuard::new (unit redir verifies new / undo_redirs / drop against the descriptor
// table); perform_redirs is assumed to keep the reference the guard was made with.  Await points are dropped.
// ---------------------------------------------------------------------------
pub assume_specification<B, C>[ <ControlFlow<B, C> as core::ops::Try>::branch ](cf: ControlFlow<B, C>) -> (r: ControlFlow<<ControlFlow<B, C> as core::ops::Try>::Residual, <ControlFlow<B, C> as core::ops::Try>::Output>)
    ensures match cf { ControlFlow::Continue(c) => r == ControlFlow::<ControlFlow<B, core::convert::Infallible>, C>::Continue(c), ControlFlow::Break(b) => r == ControlFlow::<ControlFlow<B, core::convert::Infallible>, C>::Break(ControlFlow::Break(b)) };
pub assume_specification<B, C>[ <ControlFlow<B, C> as core::ops::FromResidual<ControlFlow<B, core::convert::Infallible>>>::from_residual ](res: ControlFlow<B, core::convert::Infallible>) -> (r: ControlFlow<B, C>)
    ensures res matches ControlFlow::Break(b) ==> r == ControlFlow::<B, C>::Break(b);

pub trait Runtime {}
pub struct Redir { pub verif_id: int }
pub struct XTrace { pub verif_opaque: u8 }
pub struct OptionSet { pub verif_opaque: u8 }
pub struct CompoundCommand { pub verif_id: int }
pub mod syntax {
    use super::*;
    pub struct FullCompoundCommand { pub command: CompoundCommand, pub redirs: Vec<Redir> }
}
pub open spec fn redir_ids(s: Seq<Redir>) -> Seq<int> { Seq::new(s.len(), |i: int| s[i].verif_id) }
/// one execution of a compound command: which, with which redirections in effect, what came out
pub struct CRun { pub what: int, pub redirs: Seq<int>, pub result: Result }
pub struct Mon {
    /// the calls of RedirGuard::perform_redirs: which redirections, whether all succeeded
    pub rcalls: Seq<(Seq<int>, bool)>,
    pub cruns: Seq<CRun>,
    pub handled: nat,
    /// `$?` as the handler left it, and what it answered
    pub handled_status: Option<ExitStatus>,
    pub errexit_consulted: nat,
    /// `$?` when errexit was last consulted, and what it answered
    pub errexit_status: Option<ExitStatus>,
    pub errexit_result: Option<Result>,
}
pub struct Env<S> { pub exit_status: ExitStatus, pub options: OptionSet, pub verif_redirs: Ghost<Seq<int>>, pub mon: Ghost<Mon>, pub system: S }
pub trait Command<S> { fn execute(&self, env: &mut Env<S>) -> Result; }
pub struct RedirGuard<'e, S> { pub env: &'e mut Env<S> }
impl<'e, S> RedirGuard<'e, S> {
    /// RedirGuard::new + its Drop impl (ASSUMED as a whole): when the guard goes away the redirections in effect are those
    /// of before; everything else is as the guard left it
    #[verifier::external_body]
    pub fn new(env: &'e mut Env<S>) -> (g: RedirGuard<'e, S>)
        ensures
            g.env.verif_redirs@ == old(env).verif_redirs@, g.env.mon@ == old(env).mon@, g.env.exit_status == old(env).exit_status,
            final(env).verif_redirs@ == old(env).verif_redirs@,
            final(env).mon@ == final(g.env).mon@, final(env).exit_status == final(g.env).exit_status
    { unimplemented!() }
    #[verifier::external_body]
    pub fn perform_redirs(&mut self, redirs: &[Redir], xtrace: Option<&mut XTrace>) -> (r: std::result::Result<Option<ExitStatus>, RedirError>)
        ensures
            mut_ref_future(final(self).env) == mut_ref_future(old(self).env),
            final(self).env.mon@ == (Mon { rcalls: old(self).env.mon@.rcalls.push((redir_ids(redirs@), r is Ok)), ..old(self).env.mon@ }),
            r is Ok ==> final(self).env.verif_redirs@ == old(self).env.verif_redirs@ + redir_ids(redirs@)
    { unimplemented!() }
}
impl XTrace {
    #[verifier::external_body]
    pub fn from_options(options: &OptionSet) -> (r: Option<XTrace>) { unimplemented!() }
}
#[verifier::external_body]
pub fn verif_as_mut(x: &mut Option<XTrace>) -> (r: Option<&mut XTrace>) { x.as_mut() }
#[verifier::external_body]
pub fn finish<S>(env: &mut Env<S>, xtrace: Option<XTrace>) -> (r: String)
    ensures final(env).mon@ == old(env).mon@, final(env).verif_redirs@ == old(env).verif_redirs@, final(env).exit_status == old(env).exit_status
{ unimplemented!() }
/// env.system.print_error(&text)
#[verifier::external_body]
pub fn verif_print_error<S>(env: &mut Env<S>, text: &String)
    ensures final(env).mon@ == old(env).mon@, final(env).verif_redirs@ == old(env).verif_redirs@, final(env).exit_status == old(env).exit_status
{ unimplemented!() }
impl CompoundCommand {
    #[verifier::external_body]
    pub fn execute<S>(&self, env: &mut Env<S>) -> (r: Result)
        ensures final(env).mon@ == (Mon { cruns: old(env).mon@.cruns.push(CRun { what: self.verif_id, redirs: old(env).verif_redirs@, result: r }), ..old(env).mon@ }),
            final(env).verif_redirs@ == old(env).verif_redirs@
    { unimplemented!() }
}
pub struct RedirError { pub verif_opaque: u8 }
impl RedirError {
    /// handle.rs (unit errhandle): reports, sets `$?`
    #[verifier::external_body]
    pub fn handle<S>(&self, env: &mut Env<S>) -> (r: Result)
        ensures final(env).mon@ == (Mon { handled: old(env).mon@.handled + 1, handled_status: Some(final(env).exit_status), ..old(env).mon@ }), final(env).verif_redirs@ == old(env).verif_redirs@
    { unimplemented!() }
}
impl<S> Env<S> {
    #[verifier::external_body]
    pub fn apply_errexit(&mut self) -> (r: Result)
        ensures final(self).mon@ == (Mon { errexit_consulted: old(self).mon@.errexit_consulted + 1, errexit_status: Some(old(self).exit_status), errexit_result: Some(r), ..old(self).mon@ }),
            final(self).verif_redirs@ == old(self).verif_redirs@, final(self).exit_status == old(self).exit_status
    { unimplemented!() }
}
