// ---------------------------------------------------------------------------
// Prelude of unit cdsyntax (property C20, kernel): yash-builtin/src/cd/syntax.rs parse - what the cd built-in makes of the option
// occurrences and operands the generic parser hands it ("per-built-in interpretation of parsed options").
// C20 "equivalent spellings of an invocation have identical ... effect": the interpretation is a function of the SEQUENCE of
// option occurrences (letters, in order) and of the operands only - never of how they were spelt (grouped or separate, which
// argument held them) -, so every spelling the generic parser maps to the same occurrences means the same: the mode is that of
// the LAST -L / -P occurrence (logical without one); -e is accepted exactly when the resulting mode is physical; more than
// one operand and an empty operand are rejected; the one operand is handed on as it is.
//
// Hand-written model text (ASSUMED): parse_arguments (unit k/optparse, bounded) is an opaque call whose answer - a list of
// occurrences with their option letters, a list of operands - is all that is known; OptionSpec::get_short; `VecDeque::from(..)`
// + `pop_front()` as one helper (the first element and the rest); the expansion of `#[from]` of thiserror.
// ---------------------------------------------------------------------------
pub struct Location { pub verif_opaque: u8 }
pub struct Field { pub value: String, pub origin: Location }
pub struct ParseError { pub verif_opaque: u8 }
pub enum Error { CommonError(ParseError), EnsurePwdNotPhysical(Location), EmptyOperand(Field), UnexpectedOperands(Vec<Field>) }
impl From<ParseError> for Error { fn from(e: ParseError) -> (r: Error) { Error::CommonError(e) } }
impl vstd::std_specs::convert::FromSpecImpl<ParseError> for Error {
    open spec fn obeys_from_spec() -> bool { true }
    open spec fn from_spec(e: ParseError) -> Error { Error::CommonError(e) }
}
pub type Result = std::result::Result<Command, Error>;
pub struct OptionSpec { pub verif_short: Option<char> }
impl OptionSpec {
    #[verifier::external_body]
    pub fn get_short(&self) -> (r: Option<char>) ensures r == self.verif_short { unimplemented!() }
}
pub struct OptionOccurrence<'a> { pub spec: &'a OptionSpec, pub location: Location }
pub struct Env<S> { pub system: S }
pub struct ParserMode { pub verif_opaque: u8 }
pub mod crate_common_syntax {
    use super::*;
    pub struct Mode;
    impl Mode { #[verifier::external_body] pub fn with_env<S>(env: &Env<S>) -> ParserMode { unimplemented!() } }
}
/// the option table of cd: -e, -L, -P
pub open spec fn cd_letter(c: Option<char>) -> bool { c == Some('e') || c == Some('L') || c == Some('P') }
pub struct SpecTable { pub verif_opaque: u8 }
#[verifier::external_body]
pub fn verif_option_specs() -> &'static SpecTable { unimplemented!() }
/// common/syntax.rs parse_arguments on cd's option table: every occurrence is one of the table's options
#[verifier::external_body]
pub fn parse_arguments(specs: &'static SpecTable, mode: ParserMode, args: Vec<Field>) -> (r: std::result::Result<(Vec<OptionOccurrence<'static>>, Vec<Field>), ParseError>)
    ensures r matches Ok(p) ==> (forall|k: int| 0 <= k < p.0@.len() ==> cd_letter((#[trigger] p.0@[k]).spec.verif_short)) && parsed(args@) == Some((letters(p.0@), p.1@)),
        r is Err ==> parsed(args@) is None
{ unimplemented!() }
/// `let mut operands = VecDeque::from(operands); let operand = operands.pop_front();`: the first operand, and the rest
#[verifier::external_body]
pub fn verif_pop_front(operands: Vec<Field>) -> (r: (Option<Field>, Vec<Field>))
    ensures operands@.len() == 0 ==> r.0 is None && r.1@.len() == 0, operands@.len() > 0 ==> r.0 == Some(operands@[0]) && r.1@ == operands@.subrange(1, operands@.len() as int)
{ unimplemented!() }
#[verifier::external_body]
pub fn verif_is_empty_string(s: &String) -> (r: bool) ensures r == (s@.len() == 0) { s.is_empty() }
/// the letters of the occurrences, in order
pub open spec fn letters(o: Seq<OptionOccurrence<'static>>) -> Seq<Option<char>> { Seq::new(o.len(), |i: int| o[i].spec.verif_short) }
/// the mode the first n occurrences ask for: that of the LAST -L / -P among them, logical without one
pub open spec fn mode_of(l: Seq<Option<char>>, n: int) -> Mode
    decreases n
{
    if n <= 0 { Mode::Logical } else if l[n - 1] == Some('L') { Mode::Logical } else if l[n - 1] == Some('P') { Mode::Physical } else { mode_of(l, n - 1) }
}
pub open spec fn has_e(l: Seq<Option<char>>, n: int) -> bool
    decreases n
{
    if n <= 0 { false } else { l[n - 1] == Some('e') || has_e(l, n - 1) }
}
/// the generic parser's answer for these arguments (uninterpreted: whatever it is, the interpretation depends on it alone)
pub uninterp spec fn parsed(args: Seq<Field>) -> Option<(Seq<Option<char>>, Seq<Field>)>;
