# Unit simplecmd: the dispatcher of simple commands (kernel shared by C02, C10, C16).
SC = 'yash-semantics/src/command/simple_command.rs'
MOD_HEAD = '''    use vstd::prelude::*;
    use std::rc::Rc;
    use std::ops::ControlFlow::{self, Break, Continue};
'''
M0 = 'old(env).mon@'
M1 = 'final(env).mon@'
UNIT = {
    'name': 'simplecmd',
    'property': 'C02',
    'rlimit': 60,
    'verus_args': ['--edition=2024'],
    'vacuity_floor': 2,
    'items': [
        # crate::expansion::Result as the signature of expand_words names it
        ('@raw', 'pub mod expansion { pub type Result<T> = std::result::Result<T, crate::sc::ExpError>; }\n'),
        ('@raw', 'pub mod sc {\n' + MOD_HEAD),
        ('@file', 'prelude.rs'),
        (SC, ["impl<S: Runtime + 'static> Command<S> for syntax::SimpleCommand", 'fn execute'], {'ret': 'r', 'rewrites': ['strip-async'],
            'token_rewrites': [('use crate :: command :: search :: Target :: { Builtin , External , Function } ;', 'use crate::sc::command::search::Target::{Builtin, External, Function};')],
            'ensures': [
                # at most one executor runs, once, and it is the one for what the classifier answered for the first field; a
                # command without any field is the "absent" case; a failed expansion runs nothing
                M1 + '.executed.len() <= ' + M0 + '.executed.len() + 1',
                M1 + '.executed.len() == ' + M0 + '.executed.len() + 1 ==> ' + M1 + '.handled_errors == ' + M0 + '.handled_errors && (match ' + M1 + '.executed.last() { '
                'Kind::AbsentK => ' + M1 + '.classified == ' + M0 + '.classified, '
                'Kind::BuiltinK => ' + M1 + '.classified matches Some(Kind::BuiltinK), Kind::FunctionK => ' + M1 + '.classified matches Some(Kind::FunctionK), Kind::ExternalK => ' + M1 + '.classified matches Some(Kind::ExternalK) })',
                M1 + '.executed.len() == ' + M0 + '.executed.len() ==> ' + M1 + '.handled_errors == ' + M0 + '.handled_errors + 1 && ' + M1 + '.errexit_consulted == ' + M0 + '.errexit_consulted',
                # XCU 2.9.1: a command without a name starts from the status of the last command substitution performed in its words (0 if none)
                M1 + '.executed.len() == ' + M0 + '.executed.len() + 1 && ' + M1 + '.executed.last() is AbsentK ==> ' + M1 + '.absent_status == Some(match last_word_status(' + M1 + '.wlog, ' + M0 + '.wlog.len() as int, self.words@.len() as int) { Some(s) => s, None => ExitStatus(0) })',
                # C10: errexit is consulted after the command, exactly once, unless the command itself diverted
                M1 + '.errexit_consulted <= ' + M0 + '.errexit_consulted + 1',
                'r is Continue ==> ' + M1 + '.errexit_consulted == ' + M0 + '.errexit_consulted + 1 || ' + M1 + '.executed.len() == ' + M0 + '.executed.len()',
                M1 + '.errexit_consulted == ' + M0 + '.errexit_consulted + 1 ==> ' + M1 + '.executed.len() == ' + M0 + '.executed.len() + 1',
            ]}),
        (SC, ['fn expand_words'], {'ret': 'r', 'rewrites': ['strip-async'],
            'attrs': ['#[verifier::loop_isolation(false)]'],
            'token_rewrites': [
                # a tuple pattern in the loop header = the two projections of the element
                ('for ( word , mode ) in words', 'for verif_wm in verif_it: words'),
            ],
            'ensures': [
                # nothing but the expansion of words happens here
                M1 + ' == (Mon { wlog: ' + M1 + '.wlog, ..' + M0 + ' })',
                'forall|k: int| 0 <= k < ' + M0 + '.wlog.len() ==> #[trigger] ' + M1 + '.wlog[k] == ' + M0 + '.wlog[k]',
                # the words are expanded in order, each once, up to the first one that fails
                'r matches Ok(p) ==> ' + M1 + '.wlog.len() == ' + M0 + '.wlog.len() + words@.len() && (forall|k: int| 0 <= k < words@.len() ==> (#[trigger] ' + M1 + '.wlog[' + M0 + '.wlog.len() + k]).what == words@[k].0.verif_id && ' + M1 + '.wlog[' + M0 + '.wlog.len() + k].outcome is Ok)',
                # XCU 2.9.1: the status handed on is that of the LAST command substitution performed in any of the words, None if none
                'r matches Ok(p) ==> p.1 == last_word_status(' + M1 + '.wlog, ' + M0 + '.wlog.len() as int, words@.len() as int)',
                'r is Err ==> ' + M1 + '.wlog.len() > ' + M0 + '.wlog.len() && ' + M1 + '.wlog.last().outcome is Err',
            ],
            'loops': {0: {'body_start': 'let word = &verif_wm.0; let mode = &verif_wm.1; let ghost verif_l0 = env.mon@.wlog; let ghost verif_n0 = verif_it.index() as int;',
                'body_end': 'proof { lemma_word_status_prefix(verif_l0, env.mon@.wlog, old(env).mon@.wlog.len() as int, verif_n0); }',
                'invariant': [
                'env.mon@ == (Mon { wlog: env.mon@.wlog, ..' + M0 + ' })',
                'env.mon@.wlog.len() == ' + M0 + '.wlog.len() + verif_it.index()',
                'forall|k: int| 0 <= k < ' + M0 + '.wlog.len() ==> #[trigger] env.mon@.wlog[k] == ' + M0 + '.wlog[k]',
                'forall|k: int| 0 <= k < verif_it.index() ==> (#[trigger] env.mon@.wlog[' + M0 + '.wlog.len() + k]).what == words@[k].0.verif_id && env.mon@.wlog[' + M0 + '.wlog.len() + k].outcome is Ok',
                'last_exit_status == last_word_status(env.mon@.wlog, ' + M0 + '.wlog.len() as int, verif_it.index() as int)',
            ]}}}),
        (SC, ['fn perform_assignments'], {'ret': 'r', 'rewrites': ['strip-async'],
            'token_rewrites': [('crate :: assign :: perform_assignments', 'crate::sc::assign::perform_assignments')],
            'ensures': [
                # C16: assignments that are to be exported with the command (regular built-in, function, external utility) are
                # made in the volatile scope - they vanish with the command -, the others (special built-in, no command) in
                # the global scope - they persist
                M1 + '.assign_scope matches Some(sc) && (export ==> sc is Volatile) && (!export ==> sc is Global)',
            ]}),
        ('@raw', '}\n'),
    ],
}
