// ---------------------------------------------------------------------------
// Prelude of unit subshellstart (properties C08 / C13, kernel): Config::start (yash-env/src/subshell/config.rs), the
// common start-up code of EVERY subshell kind: ( ), command substitution, pipeline elements, asynchronous lists, external
// utilities.
// C08 "nothing done in a subshell leaks into the parent; on entry the subshell sees a copy of the parent's state, except
// that traps with command actions are reset": the child body runs on a COPY of the environment (what fork gives it);
// in it a Subshell frame is pushed, the jobs are disowned, TrapSet::enter_subshell runs exactly once (unit trap has its
// contract: command traps reset, ignores kept) with "ignore SIGINT / SIGQUIT" iff the configuration asks for it and the child
// is not job-controlled, BEFORE the task; the task runs exactly once, in that frame, with the job control actually
// granted; then the child exits with the status the task left - it never returns into the parent's code.  In the PARENT
// nothing but the fork happens, bracketed - when the child is to ignore SIGINT / SIGQUIT - by blocking the two signals and
// restoring exactly the mask that was saved, on every path after a successful block (C08: the parent's signal state is
// not changed by creating a subshell).
//
// Hand-written model text (ASSUMED).  The closure handed to Env::run_in_child_process is checked INLINE as a block that
// works on `verif_child_copy(env)` (fork: the child's Env is a copy of the parent's; its event log starts empty), and the
// fork itself is the opaque call `verif_run_in_child_process`, which is told the child's event log (ghost).  So the order
// "the parent's code before the fork, the child body, the parent's code after the fork" of the checked text is not an
// order of execution: the two sides only share what was computed BEFORE the fork.  push_frame's guard is alive until the
// child exits (the child never pops the frame).  bool::then_some + Option::flatten, the system calls, get_tty,
// TrapSet::enter_subshell, JobList::disown_all, the task and exit_or_raise are opaque calls that append to an event log.
// Await points dropped.
// ---------------------------------------------------------------------------
pub trait BlockSignals {} pub trait Close {} pub trait Dup {} pub trait Exit {} pub trait Fork {} pub trait GetPid {} pub trait Open {}
pub trait RunBlocking {} pub trait RunUnblocking {} pub trait SendSignal {} pub trait SetPgid {} pub trait SetRlimit {} pub trait SignalSystem {}
pub trait TcSetPgrp {}
#[derive(Debug)]
pub struct Errno(pub i32);
#[derive(Clone, Copy)]
pub struct Pid(pub i32);
#[derive(Clone, Copy)]
pub struct Fd(pub i32);
pub struct ExitStatus(pub i32);
pub enum Frame { Subshell, Other(u8) }
pub struct Mask { pub verif_id: int }
/// the shell options, reduced to what a setter does to them
pub enum ShellOption { Monitor, Interactive, ErrExit, Other(u8) }
pub use ShellOption::{Monitor, Interactive, ErrExit};
pub struct OptionSet { pub view: Ghost<Map<ShellOption, State>> }
impl OptionSet {
    #[verifier::external_body]
    pub fn set(&mut self, option: ShellOption, state: State) ensures final(self).view@ == old(self).view@.insert(option, state) { unimplemented!() }
    #[verifier::external_body]
    pub fn get(&self, option: ShellOption) -> (r: State) ensures self.view@.contains_key(option) ==> r == self.view@[option] { unimplemented!() }
}
pub enum Ev {
    Block, Restore { mask: int }, Fork { child_log: Seq<Ev> },
    SetPgid { pid: Pid, pgid: Pid }, TcSetPgrp,
    DisownAll, EnterSubshell { ignore_sigint_sigquit: bool, keep_internal_dispositions_for_stoppers: bool },
    Task { job_control: Option<JobControl>, stack: Seq<Frame>, options: Map<ShellOption, State> }, Exit { status: ExitStatus },
}
pub struct Env<S> { pub exit_status: ExitStatus, pub options: OptionSet, pub verif_stack: Ghost<Seq<Frame>>, pub verif_controls_jobs: bool, pub log: Ghost<Seq<Ev>>,
    /// Some(m): SIGINT and SIGQUIT are blocked and m is the mask saved when they were
    pub verif_blocked: Ghost<Option<int>>, pub system: S }
/// `env.controls_jobs().then_some(self.job_control).flatten()` (std: bool::then_some, Option::flatten)
#[verifier::external_body]
pub fn verif_then_some_flatten(b: bool, o: Option<JobControl>) -> (r: Option<JobControl>) ensures r == (if b { o } else { None::<JobControl> }) { b.then_some(o).flatten() }
impl<S> Env<S> {
    #[verifier::external_body]
    pub fn controls_jobs(&self) -> (r: bool) ensures r == self.verif_controls_jobs { unimplemented!() }
    #[verifier::external_body]
    pub fn get_tty(&mut self) -> (r: Result<Fd, Errno>)
        ensures final(self).log@ == old(self).log@, final(self).verif_blocked@ == old(self).verif_blocked@, final(self).verif_stack@ == old(self).verif_stack@, final(self).verif_controls_jobs == old(self).verif_controls_jobs, final(self).options == old(self).options
    { unimplemented!() }
}
/// `env.system.block_sigint_sigquit()`: blocks the two signals, answers the mask that was in force
#[verifier::external_body]
pub fn verif_block<S>(env: &mut Env<S>) -> (r: Result<Mask, Errno>)
    ensures
        r matches Ok(m) ==> final(env).verif_blocked@ == Some(m.verif_id) && final(env).log@ == old(env).log@.push(Ev::Block),
        r is Err ==> final(env).verif_blocked@ == old(env).verif_blocked@ && final(env).log@ == old(env).log@,
        final(env).verif_stack@ == old(env).verif_stack@, final(env).verif_controls_jobs == old(env).verif_controls_jobs, final(env).options == old(env).options
{ unimplemented!() }
/// `env.system.restore_sigmask(mask)`
#[verifier::external_body]
pub fn verif_restore<S>(env: &mut Env<S>, mask: Mask) -> (r: Result<(), Errno>)
    ensures
        final(env).log@ == old(env).log@.push(Ev::Restore { mask: mask.verif_id }),
        final(env).verif_blocked@ == (if old(env).verif_blocked@ == Some(mask.verif_id) { None::<int> } else { old(env).verif_blocked@ }),
        final(env).verif_stack@ == old(env).verif_stack@, final(env).verif_controls_jobs == old(env).verif_controls_jobs, final(env).options == old(env).options
{ unimplemented!() }
/// fork: the child's environment is a copy of the parent's (its own event log starts empty)
#[verifier::external_body]
pub fn verif_child_copy<S>(env: &Env<S>) -> (c: Env<S>)
    ensures c.verif_stack@ == env.verif_stack@, c.verif_controls_jobs == env.verif_controls_jobs, c.options == env.options, c.log@ == Seq::<Ev>::empty(), c.verif_blocked@ == env.verif_blocked@
{ unimplemented!() }
/// `env.run_in_child_process((), child_task)`: the fork itself, seen from the parent
#[verifier::external_body]
pub fn verif_run_in_child_process<S>(env: &mut Env<S>, Ghost(child_log): Ghost<Seq<Ev>>) -> (r: Result<Pid, Errno>)
    ensures final(env).log@ == old(env).log@.push(Ev::Fork { child_log }), final(env).verif_blocked@ == old(env).verif_blocked@,
        final(env).verif_stack@ == old(env).verif_stack@, final(env).verif_controls_jobs == old(env).verif_controls_jobs, final(env).options == old(env).options
{ unimplemented!() }
/// `child_env.push_frame(Frame::Subshell)` whose guard lives until the child exits
#[verifier::external_body]
pub fn verif_push_frame<S>(env: &mut Env<S>, frame: Frame)
    ensures final(env).verif_stack@ == old(env).verif_stack@.push(frame), final(env).log@ == old(env).log@, final(env).verif_controls_jobs == old(env).verif_controls_jobs, final(env).options == old(env).options, final(env).verif_blocked@ == old(env).verif_blocked@
{ unimplemented!() }
#[verifier::external_body]
pub fn verif_setpgid<S>(env: &mut Env<S>, pid: Pid, pgid: Pid) -> (r: Result<(), Errno>)
    ensures final(env).log@ == old(env).log@.push(Ev::SetPgid { pid, pgid }), final(env).verif_stack@ == old(env).verif_stack@, final(env).verif_blocked@ == old(env).verif_blocked@, final(env).verif_controls_jobs == old(env).verif_controls_jobs, final(env).options == old(env).options
{ unimplemented!() }
#[verifier::external_body]
pub fn verif_getpgrp<S>(env: &Env<S>) -> (r: Pid) { unimplemented!() }
#[verifier::external_body]
pub fn verif_tcsetpgrp<S>(env: &mut Env<S>, tty: Fd, pgid: Pid) -> (r: Result<(), Errno>)
    ensures final(env).log@ == old(env).log@.push(Ev::TcSetPgrp), final(env).verif_stack@ == old(env).verif_stack@, final(env).verif_blocked@ == old(env).verif_blocked@, final(env).verif_controls_jobs == old(env).verif_controls_jobs, final(env).options == old(env).options
{ unimplemented!() }
#[verifier::external_body]
pub fn verif_disown_all<S>(env: &mut Env<S>)
    ensures final(env).log@ == old(env).log@.push(Ev::DisownAll), final(env).verif_stack@ == old(env).verif_stack@, final(env).verif_blocked@ == old(env).verif_blocked@, final(env).verif_controls_jobs == old(env).verif_controls_jobs, final(env).options == old(env).options
{ unimplemented!() }
/// trap.rs TrapSet::enter_subshell (unit trap)
#[verifier::external_body]
pub fn verif_enter_subshell<S>(env: &mut Env<S>, ignore_sigint_sigquit: bool, keep_internal_dispositions_for_stoppers: bool)
    ensures final(env).log@ == old(env).log@.push(Ev::EnterSubshell { ignore_sigint_sigquit, keep_internal_dispositions_for_stoppers }), final(env).verif_stack@ == old(env).verif_stack@, final(env).verif_blocked@ == old(env).verif_blocked@, final(env).verif_controls_jobs == old(env).verif_controls_jobs, final(env).options == old(env).options
{ unimplemented!() }
/// `task(env, job_control)`: whatever the subshell is for
#[verifier::external_body]
pub fn verif_run_task<S, F>(task: F, env: &mut Env<S>, job_control: Option<JobControl>)
    ensures final(env).log@ == old(env).log@.push(Ev::Task { job_control, stack: old(env).verif_stack@, options: old(env).options.view@ }), final(env).verif_stack@ == old(env).verif_stack@
{ unimplemented!() }
/// semantics.rs exit_or_raise: the child ends here (it never returns)
#[verifier::external_body]
pub fn verif_exit_or_raise<S>(env: &mut Env<S>)
    ensures final(env).log@ == old(env).log@.push(Ev::Exit { status: old(env).exit_status })
{ unimplemented!() }
/// what the child does, as a predicate on its event log
pub open spec fn child_ok(log: Seq<Ev>, stack0: Seq<Frame>, options0: Map<ShellOption, State>, jc: Option<JobControl>, ignore: bool) -> bool {
    let n = log.len() as int;
    &&& n >= 4
    &&& log[n - 4] is DisownAll
    &&& log[n - 3] == (Ev::EnterSubshell { ignore_sigint_sigquit: ignore && jc is None, keep_internal_dispositions_for_stoppers: jc is None })
    // the task sees the parent's options (C08: a copy of the parent's state), the Subshell frame on top of the parent's stack
    &&& log[n - 2] == (Ev::Task { job_control: jc, stack: stack0.push(Frame::Subshell), options: options0 })
    &&& log[n - 1] is Exit
    // before that only the process-group business of job control
    &&& (forall|i: int| 0 <= i < n - 4 ==> (#[trigger] log[i]) is SetPgid || log[i] is TcSetPgrp)
    &&& (jc is None ==> n == 4)
}
